#!/usr/bin/env python3
"""Operator-based mutation campaign over the code each property is anchored in (sensitivity measure that does not
depend on anybody's imagination).

  mutate.py run <K> <seed> [ID ...]      K mutants per property, drawn deterministically from all single-operator mutants of
                                         the anchored line ranges; each is applied to $REPO (default /repo), the property's
                                         quick check is run from $VERIF_DIR (default /verif), the file is always restored.
                                         Results are appended to $OUT (default /tmp/mutate_results.jsonl).
  mutate.py list [ID ...]                number of candidate mutants per property
  mutate.py rerun <results.jsonl> <out.jsonl>
                                         re-apply every mutant of <results.jsonl> whose verdict was not "killed"/"unusable" and
                                         run the property's own check and then every other check whose anchored files include
                                         the mutated file, stopping at the first that reports a violation ("killed_by").

A mutant is killed (check exit 1), survived (exit 0) or unusable (exit 2: does not compile / inconclusive).  Survivors are
either equivalent mutants or gaps; they are reviewed by hand (DESIGN section 9.3).  Use tools/snapshot_pair.sh to keep
/repo free:  VERIF_DIR=/tmp/verif_snap REPO=/tmp/repo_snap python3 tools/mutate.py run 12 1
"""
import json, os, random, re, subprocess, sys, time

V = os.environ.get("VERIF_DIR", "/verif")
REPO = os.environ.get("REPO", "/repo")
OUT = os.environ.get("OUT", "/tmp/mutate_results.jsonl")

OPS = [
    ("rel >= -> >", r" >= ", " > "), ("rel > -> >=", r" > ", " >= "), ("rel <= -> <", r" <= ", " < "), ("rel < -> <=", r" < ", " <= "),
    ("rel == -> !=", r" == ", " != "), ("rel != -> ==", r" != ", " == "),
    ("arith + -> -", r" \+ ", " - "), ("arith - -> +", r" - ", " + "), ("arith * -> /", r" \* ", " / "), ("arith / -> *", r" / ", " * "),
    ("assign += -> -=", r" \+= ", " -= "), ("assign -= -> +=", r" -= ", " += "),
    ("logic && -> ||", r" && ", " || "), ("logic || -> &&", r" \|\| ", " && "),
    ("const + 1 -> + 2", r"\+ 1\b(?!\.)", "+ 2"), ("const - 1 -> - 2", r"- 1\b(?!\.)", "- 2"), ("const == 0 -> == 1", r"== 0\b(?!\.)", "== 1"),
    ("const 1.0 -> 0.5", r"\b1\.0\b", "0.5"), ("const 0.0 -> 1.0", r"\b0\.0\b", "1.0"),
    ("minmax min -> max", r"\.min\(", ".max("), ("minmax max -> min", r"\.max\(", ".min("),
    ("bool true -> false", r"\btrue\b", "false"), ("bool false -> true", r"\bfalse\b", "true"),
    ("shift >> -> <<", r" >> ", " << "), ("shift << -> >>", r" << ", " >> "),
    ("index [0] -> [1]", r"\[0\]", "[1]"),
    ("neg drop !", r"!(self|[a-z_]+\.)", r"\1"),
]


def anchors():
    out = {}
    for l in open(os.path.join(V, "properties.jsonl")):
        p = json.loads(l)
        rs = []
        for m in p["anchors"].get("mechanism", []) + p["anchors"].get("state", []):
            cur = None
            for part in m["where"].split(","):
                part = part.strip()
                mm = re.match(r"([A-Za-z_0-9/\.]+):(\d+)(?:-(\d+))?$", part)
                if mm:
                    cur = mm.group(1)
                    lo, hi = int(mm.group(2)), int(mm.group(3) or mm.group(2))
                else:
                    mm = re.match(r"(\d+)(?:-(\d+))?$", part)
                    if not mm or cur is None:
                        continue
                    lo, hi = int(mm.group(1)), int(mm.group(2) or mm.group(1))
                if cur.endswith(".rs"):
                    # the pinned line numbers predate the small fix commits: widen a little
                    rs.append((cur, max(1, lo - 3), hi + 6))
        out[p["id"]] = rs
    return out


def candidates(pid, ranges):
    cands = []
    seen = set()
    for (f, lo, hi) in ranges:
        path = os.path.join(REPO, f)
        if not os.path.exists(path):
            continue
        lines = open(path).read().split("\n")
        for n in range(lo, min(hi, len(lines)) + 1):
            line = lines[n - 1]
            code = line.split("//")[0]
            st = code.strip()
            if not st or st.startswith("#") or st.startswith("use ") or st.startswith("///") or "assert" in st and "debug" in st:
                continue
            for (name, pat, rep) in OPS:
                for m in re.finditer(pat, code):
                    new = code[:m.start()] + re.sub(pat, rep, code[m.start():m.end()]) + code[m.end():]
                    key = (f, n, new)
                    if new != code and key not in seen:
                        seen.add(key)
                        cands.append({"file": f, "line": n, "op": name, "old": line, "new": new + line[len(code):]})
            # statement deletion: a plain assignment / call statement
            if re.match(r"^[\*a-z_][A-Za-z_0-9\.\[\]\*\(\)]*\s*(=|\+=|-=)\s*[^=].*;$", st) or re.match(r"^(self\.)?[a-z_\.]+\([^;]*\);$", st):
                key = (f, n, "")
                if key not in seen:
                    seen.add(key)
                    cands.append({"file": f, "line": n, "op": "delete statement", "old": line, "new": ""})
    return cands


def run_one(pid, c, checks=None):
    path = os.path.join(REPO, c["file"])
    src = open(path).read()
    lines = src.split("\n")
    assert lines[c["line"] - 1] == c["old"]
    lines[c["line"] - 1] = c["new"]
    open(path, "w").write("\n".join(lines))
    t0 = time.time()
    try:
        e = dict(os.environ)
        e["CARGO_NET_OFFLINE"] = "true"
        # a mutant may hang inside the library: own process group, 10 minute budget, then kill the whole group
        killed_by = None
        for chk in (checks or [pid]):
            pr = subprocess.Popen([os.path.join(V, "check"), chk, "quick"], cwd=V, env=e, stdout=subprocess.PIPE, stderr=subprocess.STDOUT, text=True, start_new_session=True)
            try:
                out, _ = pr.communicate(timeout=600)
                rc = pr.returncode
            except subprocess.TimeoutExpired:
                os.killpg(pr.pid, 9)
                pr.communicate()
                rc, out = 2, "timeout (hang)"
            if rc == 1:
                killed_by = chk
                break
            if rc != 0 and chk == pid and checks and len(checks) > 1:
                continue
    finally:
        open(path, "w").write(src)
        subprocess.run(["rm", "-rf", os.path.join(V, "replays", "new")])
    msg = [l.strip() for l in out.splitlines() if l.startswith("  message")][:1]
    verdict = {0: "survived", 1: "killed"}.get(rc, "unusable")
    if rc == 2 and "does not build" not in out:
        verdict = "hang" if out.startswith("timeout") else "inconclusive"
    return {"property": pid, "verdict": verdict, "killed_by": killed_by, "rc": rc, "seconds": round(time.time() - t0, 1), "message": msg[0][:300] if msg else None, **c}


def main():
    mode = sys.argv[1]
    anc = anchors()
    if mode == "list":
        ids = sys.argv[2:] or sorted(anc)
        for pid in ids:
            print(pid, len(candidates(pid, anc[pid])))
        return
    if mode == "rerun":
        files = {}
        for l in open(os.path.join(V, "properties.jsonl")):
            p = json.loads(l)
            files[p["id"]] = set(p["anchors"].get("files", []))
        for l in open(sys.argv[2]):
            r = json.loads(l)
            if r["verdict"] in ("killed", "unusable"):
                continue
            pid = r["property"]
            c = {k: r[k] for k in ("file", "line", "op", "old", "new")}
            others = [q for q in sorted(files) if q != pid and c["file"] in files[q]]
            rr = run_one(pid, c, [pid] + others)
            rr["first_verdict"] = r["verdict"]
            with open(sys.argv[3], "a") as f:
                f.write(json.dumps(rr) + "\n")
            print("%s %-10s by=%s %s:%d  %s  | %s" % (pid, rr["verdict"], rr["killed_by"], c["file"], c["line"], c["op"], (rr["message"] or "")[:120]), flush=True)
        subprocess.run(["git", "-C", REPO, "checkout", "--", "."])
        return
    k, seed = int(sys.argv[2]), int(sys.argv[3])
    ids = sys.argv[4:] or sorted(anc)
    st = subprocess.run(["git", "-C", REPO, "status", "--porcelain", "--untracked-files=no"], stdout=subprocess.PIPE, text=True).stdout.strip()
    if st:
        print("ERROR: %s is dirty" % REPO)
        sys.exit(3)
    for pid in ids:
        cands = candidates(pid, anc[pid])
        rnd = random.Random("%s-%d" % (pid, seed))
        rnd.shuffle(cands)
        # at most two mutants per source line
        per_line, chosen = {}, []
        for c in cands:
            key = (c["file"], c["line"])
            if per_line.get(key, 0) < 2:
                per_line[key] = per_line.get(key, 0) + 1
                chosen.append(c)
            if len(chosen) >= k:
                break
        for c in chosen:
            r = run_one(pid, c)
            with open(OUT, "a") as f:
                f.write(json.dumps(r) + "\n")
            print("%s %-12s %s:%d  %s  | %s" % (pid, r["verdict"], c["file"], c["line"], c["op"], (r["message"] or "")[:120]), flush=True)
    subprocess.run(["git", "-C", REPO, "checkout", "--", "."])


if __name__ == "__main__":
    main()
