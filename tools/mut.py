#!/usr/bin/env python3
"""Sensitivity test: apply one textual mutation to /repo in place, run a check, always revert.
usage: mut.py <ID> <tier> <file relative to /repo> <old> <new> [count]
Prints MUTANT-KILLED / MUTANT-SURVIVED / MUTANT-INCONCLUSIVE."""
import subprocess, sys, os
pid, tier, rel, old, new = sys.argv[1:6]
count = int(sys.argv[6]) if len(sys.argv) > 6 else 1
path = os.path.join("/repo", rel)
src = open(path).read()
if src.count(old) < 1:
    print("MUTANT-ERROR: pattern not found"); sys.exit(3)
mut = src.replace(old, new, count)
try:
    open(path, "w").write(mut)
    p = subprocess.run(["/verif/check", pid, tier], stdout=subprocess.PIPE, stderr=subprocess.STDOUT, text=True)
finally:
    subprocess.run(["git", "-C", "/repo", "checkout", "--", rel])
out = p.stdout
lines = [l for l in out.splitlines() if l.startswith(("VIOLATION", "  message", "  sub-check", "INCONCLUSIVE", "["))]
print("\n".join(lines[:12]))
print({0: "MUTANT-SURVIVED", 1: "MUTANT-KILLED"}.get(p.returncode, "MUTANT-INCONCLUSIVE rc=%d" % p.returncode))
