#!/usr/bin/env python3
"""Regenerates /verif/MANIFEST.json from the table below (single source of truth)."""
import json, os
V = os.path.dirname(os.path.dirname(os.path.abspath(__file__)))

# id -> (engine, technique, level text, level note, design_ref)
CHECKS = {}
def add(pid, engine, technique, text, note, ref):
    CHECKS[pid] = (engine, technique, text, note, ref)

add("C01", "vp_sample",
    "bounded-exhaustive enumeration + proptest against an exact i128 reference formula",
    "Every value of every 8/16/24-bit source (thorough: also 32-bit) against all 11 targets, structured product (top 24 bits exhaustive x low-part patterns) and proptest-random values for 48/64-bit sources, boundary sets, and the via-intermediate law on all admissible triples; compared with floor(amp*2^(t-s)) computed in i128; each format's EQUILIBRIUM constant is the amplitude-0 value and maps onto every other format's. A panic inside a typed bulk loop is located in a second, guarded pass and reported with its case. Exhaustive on the narrow formats, a structured sample on the wide ones: exploration, not proof.",
    "Trusted: rustc/LLVM integer semantics, the i128 reference (8 lines), proptest, rayon. 48/64-bit sources are not exhausted.",
    "DESIGN.md §4 C01")

add("C02", "vp_sample",
    "bounded-exhaustive enumeration + proptest against a soft-float / exact-truncation reference",
    "int->float: every value of the <=24-bit sources (thorough: <=32-bit), structured values of the wider ones (incl., for every magnitude, the neighbourhood of the mantissa's rounding half-way point +-{0,1,2, a few low bits}: the values on which one rounding and two successive roundings disagree), bit-compared with a soft-float round-to-nearest-even reference, plus the int->float->int round trip wherever the width fits the mantissa. float->int: every f32 bit pattern of [-1,1) in the thorough tier (one seed-chosen pattern per 64 in quick) x 12 targets, f64 by proptest over sign/exponent/mantissa plus the truncation decision points and boundary patterns of both float types (the largest values below 1.0, every power of two down to 2^-70 with its neighbours, zeros, subnormals), compared with trunc(x*2^(bits-1)) on the decomposed float. custom-width samples built through From<backing integer> from out-of-range values convert like the in-range sample; each format's EQUILIBRIUM converts to 0.0 and 0.0 / -0.0 convert to it; f32->f64 over all 2^32 patterns (thorough), f64->f32 on random values, exact midpoints +-1ulp, the overflow threshold and the subnormal range.",
    "Trusted: the soft-float reference (cross-checked against hardware casts at start-up), IEEE semantics of the host, rustc/LLVM. f64 sources are sampled, not exhausted.",
    "DESIGN.md §4 C02")

add("C15", "vp_sample (two build configurations)",
    "bounded-exhaustive enumeration + proptest against exact i128 arithmetic, in two build configurations",
    "Conversions from floats (incl. the largest values below 1.0) and from 64-bit integers into the four custom conversion targets stay in range. All 2048^2 operand pairs of both 11-bit types for + - *, every i16 through new/From<i16>, Neg on every I11 value, boundary grids and overflow-biased proptest operands for the 20/24/48-bit types, every widening From impl (exhaustive for <=16-bit sources), ordering on boundary grids; run once with debug assertions + overflow checks (overflow must panic) and once without (result must be wrapped modulo 2^bits).",
    "Trusted: i128 reference arithmetic, catch_unwind to observe panics. Wider types are sampled with structure.",
    "DESIGN.md §4 C15")

add("C03", "vp_sample",
    "proptest + bounded-exhaustive enumeration against a reference built from the exact conversion references and native companion arithmetic",
    "Sample level: add_amp / mul_amp / to_signed_sample / to_float_sample for all 14 formats on boundary-biased and random operands (valid by construction), the last 300 values at both ends of every integer format scaled by exactly 1.0 and offset by 0, all values of the 8/16-bit formats against the identity operands (offset 0, offsets landing on MIN/MAX, gains 0, 1, 0.5). Frame level: every Frame method for every width 1..=32 (u8, i16, U48, f32), widths 1/2/5/32 and the bare-sample frame for all 14 formats; closures record their call order and arguments, channel contents are pairwise distinct (and, in one case out of four, equal between neighbours), from_samples is driven with every short and long iterator length and with exact / (0, None) / (k < N, None) size hints, the channels() iterator is also used positionally (nth, skip, step_by) and its len() is read before every next() and after exhaustion, clones of it taken mid-way continue correctly, channels_mut() is also walked in reverse and from both ends; from_samples is also driven with a poll-counting non-fused iterator (exactly N items on success, no poll after the first None). Round 7: frames whose every other channel is silent in both operands, and gains down to 1e-300 (the product must still be the sample operation's).",
    "Trusted: the conversion references of C01/C02, native + and * of the host in the companion type. The 14 x 32 product of array instantiations is covered as 4 x 32 + 14 x 4 (array frames are one generic impl).",
    "DESIGN.md §4 C03")

add("C06", "vp_buf (+ libFuzzer target rb in the thorough tier)",
    "model-based testing: bounded-exhaustive step relation from every state + proptest operation histories against VecDeque / rotating-array models",
    "The step relation (every operation with every argument) is executed from every valid (start, len) / first of capacities 1..=12 (thorough 1..=24), all two-operation sequences from every state of capacities 1..=4 (6), plus proptest histories of up to 300 (2000) operations over capacities up to 64, four storage kinds and two element types, and for Fixed (which does not require Copy elements) an element type with a destructor whose every drop is recorded in a ledger (an element leaves the buffer exactly once, and is live when push hands it back); after every operation len/is_empty/is_full/max_len, get(i), Index, iter, slices (and iter_loop for Fixed) are compared with the model, out-of-range Index must panic, constructors (from_raw_parts, from, from_full, FromIterator) must accept exactly the documented valid parts; iter(), iter_loop() and drain() obey the iterator laws (nth, skip, step_by, size_hint, count, last agree with next). Backing storage sits between canary guard zones and dead slots carry sentinels; a debug-assertion build turns unchecked out-of-bounds accesses into fatal failures that are reported with the case that caused them.",
    "Trusted: the VecDeque model, std's unsafe-precondition checks (debug-assertion build), ASan in the fuzz tier. Capacities above the enumerated bound are covered by random histories only.",
    "DESIGN.md §4 C06")

add("C10", "vp_buf (+ libFuzzer target slice in the thorough tier)",
    "bounded-exhaustive enumeration + proptest with pointer/length/content oracles and a counting allocator",
    "Every N in 1..=32 x six formats (1/2/4/8-byte, incl. newtypes) x every length 0..=2N+1 x shared/mutable/boxed through every entry point (free functions and trait methods), plus random lengths up to 4096, the viewed range sitting at a non-zero offset inside a larger buffer (so that an empty range still has a real address and nothing outside the range may change): Some iff N divides L, L/N frames, same memory, frame i channel c == sample i*N+c, a write through the mutable view changes exactly that sample, inverse view restores pointer and length; boxed conversions: pointer preserved, zero allocator events on success, every byte released after success-and-drop and after a failed conversion. In-place ops on eight frame types (incl. [i32;2] and [i64;1] with values wider than their float companion's mantissa), closures recording their arguments (call k is about element k), zip_map_in_place also with a second slice of a different frame type, runs of equal neighbouring frames, sums landing exactly on MAX / MIN: every length pair up to 6x6 and random lengths: equal to the element-wise frame op, and a length mismatch panics with the destination bit-identical. Round 7: in-place add with unity gain on every channel.",
    "Trusted: the counting allocator (self-tested), pointer comparison, std's unsafe-precondition checks in the debug-assertion build.",
    "DESIGN.md §4 C10")

add("C12", "vp_buf (+ libFuzzer target fork in the thorough tier)",
    "schedule enumeration (all valid interleavings to a bounded length) + proptest schedules against an index-coded probe source",
    "Every interleaving of the two branches of every length up to 16 (thorough 20) whose lead stays within the capacity, capacities 1..=4 (5), by_ref and by_rc, every such schedule up to length 9 (12) x every re-split point, plus random run-structured schedules of up to 400 pulls with capacity up to 64; after every pull: the frame returned is the branch's own k-th source frame, the probe was pulled max(pulls_A, pulls_B) times, pending_frames equals the lag. fork() over a non-empty ring buffer must panic; the empty ring buffer may start at any backing slot; the source may be endless, finite, or report exhaustion while still yielding frames (same invariants across its end); the Fork may be cloned mid-use and the clone split. One by_rc branch is dropped after every prefix of every valid schedule (length <= 8) and the survivor must still see every source frame in order.",
    "Trusted: the probe source (frames encode their index). Schedules are orders of next() calls on one thread (the types are !Sync), which the harness owns completely.",
    "DESIGN.md §4 C12")

add("C13", "vp_buf (+ libFuzzer target bus in the thorough tier)",
    "model-based testing: all operation sequences to a bounded depth + proptest histories against a position model, backlog observed through a cfg-guarded hook",
    "Every applicable sequence of send / next(i) / drop(i) up to length 9 (thorough 11) over at most 3 live outputs (infinite and 3-frame source), plus random run-structured sequences of up to 300 operations over up to 6 outputs; after every operation: frame returned == source frame at the output's position, probe pulls == P, pending_frames == P - position, is_exhausted, and Bus::verif_backlog_len() == P - min live position (0 when none). In a quarter of the random cases, and after the last send of every enumerated sequence, the Bus handle itself is dropped while its outputs live on; sources may report exhaustion while still yielding index-coded frames.",
    "Trusted: the position model (15 lines), the probe source; the hook is a read-only accessor compiled only with --cfg rustaudio_dasp_verif.",
    "DESIGN.md §4 C13")

add("C14", "vp_buf",
    "bounded-exhaustive enumeration of small configurations + proptest against a stream model with an instrumented source",
    "Every capacity 1..=4 (thorough 5) x every valid (start, pre-fill) via Bounded::from_raw_parts x source lengths 0..=9 (12) x every string of up to 4 (5) operations over next() and next_frames().take(0..=capacity), each followed by an until_exhausted() drain; random cases with capacity up to 32 and 120 operations. Checked: every yielded frame is the next element of pre-fill ++ source ++ equilibrium, the probe's pull count jumps by exactly the capacity when and only when the buffer was empty, a partially drained batch leaves the rest (also through next_frames().nth(k)), is_exhausted == buffer empty and source exhausted, drain length and padding < capacity.",
    "Trusted: the queue model, the probe source.",
    "DESIGN.md §4 C14")

add("C04", "vp_sig (+ libFuzzer target tree in the thorough tier)",
    "proptest over typed adaptor trees (program generation) against a compositional pointwise model with instrumented sources; libFuzzer + ASan over byte-decoded trees in the thorough tier",
    "Random adaptor trees to depth 4 (thorough 7) over 8 frame types, built from the real dasp adaptors on type-erased children (map, scale/offset and their per-channel variants, clip_amp, inspect, delay, by_ref via a throw-away adaptor on a borrow, zip_map, add_amp, mul_amp), plus a catalogue of every single adaptor and every pair; frame k must equal the composition of the frame operations on frame k of the sources, clip_amp an independent clamp, delay(k) k equilibrium frames; is_exhausted() agrees with the stream model before every pull; after every output frame every probe's pull counter must have advanced by exactly one (zero under a delay still emitting silence) and every inspect closure must have been called exactly once per frame that reached it. A separate sub-check drives clip_amp with MIN / MAX / boundary values of all 14 formats x boundary thresholds; another drives the gain / offset adaptors (scale_amp, scale_amp_per_channel, mul_amp, offset_amp, offset_amp_per_channel, add_amp) with full-range values of all 14 formats and compares them with the Frame operation on the same frame and with four identities stated on raw amplitudes (offset 0, gain 1, gain 0, gain 0.5 on even amplitudes). Round 7: map closures count their calls (exactly one per output frame, in order, also over runs of equal frames). Thorough tier: the same cases decoded from bytes under libFuzzer + ASan (target tree).",
    "Trusted: the Frame operations (C03's subject) used by the model, the probe sources. Operands are small by construction so results stay in range.",
    "DESIGN.md §4 C04")

add("C05", "vp_sig (+ libFuzzer target exhaust in the thorough tier)",
    "bounded-exhaustive catalogue + proptest trees against a stream-length model; libFuzzer + ASan over byte-decoded trees in the thorough tier",
    "Every single adaptor and every pair x source lengths 0..=12 (thorough 16) x 1..4 channels x iterator-backed and interleaved-sample sources with every incomplete-tail length x delays 0..=3 x every consumption mode (is_exhausted before/after each next with pulls past the end, until_exhausted, take(n), interleaved iterator, next_sample, lift), two-source adaptors with every (L1, L2) <= 6, plus random trees: exhaustion exactly at min source length (+ leading delays), equilibrium afterwards, iterators yield exactly the model length and then None on five further calls, interleaved output yields frames x channels samples in channel order. Sources include non-fused iterators (which yield items again after None: the signal must end exactly once); the interleaved output is also cloned after every possible number of samples; take / until_exhausted / the interleaved iterator obey the iterator laws (nth, skip, step_by, size_hint, count, last agree with next). The combining adaptors that are not tree nodes: mul_hz over every (source length <= 8, multiplier-signal length <= 12, ratio k/4 <= 3, floor|linear) is exhausted iff the multiplier signal is or a plain converter at the same ratio is; bus outputs under random pull schedules are exhausted iff they have received every source frame; a plain converter at every ratio k/4 <= 4 over sources of 0..=12 frames must end after ceil((R+1)/r) frames or one more; rate.hz(finite frequency signal) used as a signal is exhausted exactly when that signal is; the silence after the end / in a delay lead-in / from take() padding is the amplitude-0 value of each of the 14 formats (stated without the library's constants); signals are also consumed through a &mut borrow; bus outputs are also attached while others lag; until_exhausted() over a buffered signal or an upsampling converter stays finished when polled again after its first None. Round 7: a buffered adaptor drained through until_exhausted yields at least every source frame and fewer than source length + capacity. Thorough tier: the tree cases decoded from bytes under libFuzzer + ASan (target exhaust).",
    "Trusted: the stream-length model (pointwise keeps, two-source min, delay adds).",
    "DESIGN.md §4 C05")

add("C08", "vp_sig",
    "proptest + small exhaustive grid against an exact-rational position model with an instrumented source (exact regime ==, general regime derived tolerance)",
    "Runs of up to 300 outputs (drift runs 2e4 / 1e6) over 5 frame formats, floor and linear interpolators, finite (1..60) and infinite sources, and nine ways of establishing the ratio (three constructors, the Signal methods, mul_hz with a control signal, the three setters before every frame). The model keeps P_n as an exact multiple of 2^-64. Exact regime (ratios k/2^m, grid-valued frames): pulls beyond priming == floor(P_n), floor output == source[floor(P_n)], linear output == exact blend (truncated toward zero for integer formats), is_exhausted() before every output, until_exhausted() count == model and in {ceil((R+1)/r), +1}, one control frame per output for mul_hz; source frames contain plateaus with odd integer values and the never-outside-the-interval clause is exact for integer formats in both regimes. The hz-pair entry points are called with (p x t, t) for 14 target rates t (powers of two, small odd numbers, common and uncommon audio rates) with p x t exact, incl. every whole-number ratio up to 200 and every quarter ratio up to 50, so the quotient source_hz / target_hz is exactly p. General regime (arbitrary ratios in [1e-3, 1e3]): the same with a tolerance of n*2^-51*(1+r_max) on the position. Round 7: whole and quarter ratios whose quotient is exact are also driven through set_playback_hz_scale, mul_hz and scale_playback_hz.",
    "Trusted: the position model, the probe source, f64 exactness on the dyadic grid. The general regime cannot distinguish positions closer than the stated tolerance to an integer.",
    "DESIGN.md §4 C08")

add("C20", "vp_sig",
    "bounded-exhaustive enumeration + proptest against closed-form references",
    "Hann/Rectangle window functions on every phase k/2^m (m <= 10) and random phases in [0,1] for f64 and f32 phase types (value vs sin^2(pi p), range, symmetry, end points); Window::new(n) for n in 2..=64 and {100, 1000, 4096, 2^32+3, 2^33+1, 2^40}; Windower over every (L, bin, hop) in 0..=40 x 2..=12 x 1..=14 x two windows x four frame formats (f64, [f32;2], i16, [u8;2]) plus random larger triples: chunk count == floor((L-b)/h)+1 (0 when L < b), chunk k's first b frames == frames[k*h+i] scaled by W(i/(b-1)), size_hint() before every next() brackets the number of chunks still to come, None is sticky; nth / skip / step_by on the Windower and clones of it taken mid-way see the same schedule; clones of a Window and of a Windowed chunk taken after j frames continue where the original stands; a Windower whose public fields were assigned behaves like one constructed with those values; hops up to usize::MAX; Window and Windowed obey the iterator laws.",
    "Trusted: libm sin for the reference shape; stated tolerances (1e-12 / 2e-7 / 1e-9*n); integer frames must be unchanged under the Rectangle window and otherwise lie between the truncated products of the signed amplitude with w -+ 3e-7.",
    "DESIGN.md §4 C20")

add("C17", "vp_sig",
    "proptest + long deterministic runs against an exact accumulated-phase model; metamorphic/purity relations for noise",
    "Oscillators driven at random and boundary rates with constant (ConstHz) and per-frame (Hz over an instrumented frequency signal) frequencies from 0 to 1e30 x rate (beyond 2^63), runs to 2000 frames plus 1e6-frame (thorough 2e7) tiny-step, huge-step, varying and exact-regime runs: phase in [0,1) and starting at 0, phase == frac(sum of steps) exactly in the exact regime (dyadic steps at power-of-two rates or at integer rates such as 49, 441, 44100, 48000), a Phase advanced 1 or 3 frames and then turned into sine / saw / square through the method form carries on from its phase, and within the sum of one ulp of every addition so far (2^-52 x (phase + step) per frame) otherwise, steps down to 1e-19 (below 2^-52), subnormal steps (exact regime of their own) and rates below 1 included, sine/saw/square against the observed phase, simplex noise in range and equal to its value at the same phase, one frequency frame consumed per output frame (also after the frequency signal has reported exhaustion). Noise: boundary seeds (0, 1, 2^32, 2^63, u64::MAX-k for k<=300) and random seeds: in range, no panic, reproducible on restart and clone, frame n of noise(s) == frame 0 of noise(s+n). Round 7: steps next to 0.5 / 0.25 / 0.75 and 2^31 (thorough 2^32) consecutive noise frames covering the generator's whole counter period.",
    "Trusted: libm sin/cos for the references; the phase observer is a second instance of the same Phase code (the model checks it against exact accumulation).",
    "DESIGN.md §4 C17")

add("C11", "vp_sig (std) + vp_nostd (dasp_sample/frame/ring_buffer/rms with default-features = false)",
    "proptest operation histories + long runs against an exact windowed mean-square reference, in two feature configurations",
    "Histories of push / push-squared / reset (up to 50 x N, max 3000 operations; long runs of 1e5, thorough 1e6 pushes with loud/quiet alternation; value profiles incl. loud / far quieter but non-zero / reset / ordinary, quiet throughout, first channel silent; constructed loud-quiet-reset-quiet histories for every format and window length; the detector may be replaced by its clone at any point) over 9 formats (incl. u64, i64) x 1/2/5 channels x window lengths 1..=64, 100, 1000 (constructed cases up to 144000). Exact regime (grid values k/64, libm sqrt): next_squared == mean and next == sqrt(mean) bit for bit; general regime: |next_squared - mean| within the derived bound u X^2 (2.2 T (N+1)/N + 5), next within the bound propagated through the square root (4u relative for libm; 7% + 2^-62 / 2^-500 for the no_std approximation); never negative or NaN; after reset() bit-identical to a fresh detector on the same subsequent input; current() == last next() (and the square root of the last next_squared()); the signal adaptor bit-identical to the direct detector, also when pulled N+3 frames past the end of its source. The driver runs a std binary and a binary whose dasp crates are built without the std feature (a start-up self-check confirms which square root is linked) and merges their evidence. Round 7: float formats with amplitudes up to 8.",
    "Trusted: f64 reference arithmetic on exact amplitudes (its own error is added to the bound). The general-regime bound grows with the number of pushes since the last reset; the exact regime compensates.",
    "DESIGN.md §4 C11")

add("C19", "vp_sig",
    "bounded-exhaustive enumeration (rectifiers) + proptest histories (envelope) against exact and interval oracles; one open known finding excluded by construction",
    "Rectifiers: every value of the 8/16-bit formats (minimum excluded, as the statement's premise), boundary sets and random values of the other ten formats, 1..=4 channels, functions and Rectifier impls: |signed amplitude|, max(s, eq), min(s, eq) exactly. Envelope: histories of up to 400 frames over 7 frame types x peak (three rectifiers) and rms (window 1..=32) detection x attack/release from {0, -0.0, 1e-30, 1e-3, 0.5, 1, 10, 1e4, 3.4e7, 1e9, +infinity, random} with set_attack_frames/set_release_frames at random steps, directly and through the detect_envelope adaptor: every output channel inside d + [g_lo, g_hi](l - d) with g = exp(-1/frames) (allowance: 2 ulp at the signal level for float formats, 1 LSB + 4 ulp of |l - d| for integer formats), between the previous envelope and the detected value, equal to the detected value for a zero time constant, prefix before the first parameter change identical to the unchanged run, adaptor bit-identical to the detector, also when pulled past the end of its source; every named constructor (peak, peak_*_half_wave, peak_from_rectifier, rms) bit-identical to Detector::new. Known finding F8 (i32 frames, gain rounding to 1.0, previous envelope at full scale -> overflow) is excluded by construction, counted, and reproduced by one deterministic probe that prints the KNOWN-FINDING line; any other failure is a violation. Round 7: float frames with amplitudes up to 4.",
    "Trusted: f64 exp for the reference gain (1e-5 relative allowance for the f32 powf), a second instance of the detector stage to observe d.",
    "DESIGN.md §4 C19, §5 F8")

add("C18", "vp_sig",
    "proptest + depth/length grid with round-trip (ratio 1), metamorphic (superposition, scaling, reset) and range oracles",
    "Depths 1..=16 (thorough 64), histories of 0..6 x depth frames incl. the priming phase, fractions {0, k/1024, random, 1-2^-53}, formats f64, f32, [f64;2], i16, i32, I24 (integer histories at full scale incl. MIN / MAX at ratio 1, histories ending in runs of exact silence; float histories scaled by gains from 1e-30 to 1e6): (i) Converter at ratio exactly 1 (scale 1.0, or two equal rates through from_hz_to_hz / set_hz_to_hz) reproduces the source delayed by exactly depth frames within 1e-12 peak (exact for integer formats), for every depth and a grid of history lengths around depth; (ii) interp(A+B) ~ interp(A)+interp(B) and interp(2^k A) ~ 2^k interp(A) within derived rounding bounds; (iii) outputs finite and bounded, also through the converter at random ratios; (iv) constant input on a primed buffer with depth >= 4 within 1 % on a grid of 64 fractions; (v) after reset() silent and bit-identical to a fresh interpolator on any subsequent history. Round 7: an f64 impulse next to f64::MAX at ratio exactly 1.",
    "Trusted: the stated tolerances; integer inputs are limited to 0.15 full scale (overflow on full-scale integer input is outside the statement).",
    "DESIGN.md §4 C18")

add("C09", "vp_graph (+ libFuzzer target graph in the thorough tier)",
    "bounded-exhaustive enumeration of small multigraphs + proptest graphs against a reachability / topological-order / functional-evaluation model with instrumented nodes",
    "Every directed multigraph on up to 3 nodes (multiplicity 0..2 on each ordered pair incl. self-loops) x every output node, every digraph with self-loops on 4 nodes x every output node (thorough: every loop-free digraph on 5 nodes), single removals with slot reuse on stable graphs, and random graphs of up to 14 nodes with parallel edges, self-loops, removals, late nodes and edges, consecutive process calls with different output nodes on one reused processor of random capacity, Graph and StableGraph: processed set == reverse reachability, each node once; each invocation's input pointers == one per incoming edge from a different node, never the node's own buffers, and presenting all of the neighbour's buffers whatever the consumer's own channel count; mixers with 17..=80 incoming edges on a processor created with capacity 0..=5; optionally a node that panics (caught) during an earlier call on the same processor; loop-free graphs of the library's own Sum / SumBuffers / Pass nodes fed by closure nodes and finite signal nodes, evaluated by an independent reference over 1..=4 calls; for acyclic upstream subgraphs inputs first and buffers == functional evaluation; nodes own 0..=2 output buffers (zero-buffer nodes must still be processed); sources()/sinks() == live nodes without incoming / outgoing edges. Round 7: a call aborted by a panicking node on one component, followed by calls on another component of the same graph with the same processor (nothing of the aborted traversal may be rendered).",
    "Trusted: petgraph 0.5.1 as resolved by the repository's lock file; the harness edge list and reachability model. Input order is unspecified and not asserted.",
    "DESIGN.md §4 C09")

add("C16", "vp_graph",
    "proptest + catalogue (kind x wrapper x channel layout) against per-node reference functions inside a real graph",
    "Sum, SumBuffers, Pass, Delay, signal node and nested GraphNode, each through bare / &mut / Box / BoxedNode / BoxedNodeSend / Box<dyn FnMut> / Box<dyn Fn> / fn-pointer forms, with 0..6 inputs of 0..4 buffers, 0..4 output buffers (mismatched on purpose), 1..6 consecutive process calls with fresh contents from constant-writer source nodes (levels scaled by 2^e, e down to -143: quiet and subnormal signals; dense contents or impulses 193 samples apart with silent blocks between them; the node under test may carry an edge onto itself), Delay rings of 1..200 samples per channel (shorter than, equal to and longer than a buffer), signal frames of 1..4 channels: Sum per channel over the inputs that have it, SumBuffers over all buffers, Pass copies and leaves surplus outputs (sentinel pattern) untouched (with several inputs: the copy of exactly one of them), Delay == per-channel FIFO carried across calls, signal node de-interleaves one buffer length of frames per call, GraphNode == processing the same inner graph directly (inner graphs whose output node is a Sum, a Pass with a surplus buffer, or sits on a feedback loop through a delay), signal nodes over endless and over finite signals that end during the run, every wrapper bit-identical to the bare node.",
    "Trusted: the reference functions; exact comparison on grid contents, n eps sum|x| otherwise. dasp_graph is built against the crates.io 0.11.0 dasp_* crates exactly as the repository resolves them.",
    "DESIGN.md §4 C16")

add("C07", "vp_alloc",
    "scenario catalogue driven by enumeration + proptest parameters, observed with a counting global allocator (thread-local, armed regions)",
    "30 scenarios covering sample conversions and arithmetic (incl. the operators of the eight custom-width integer types, in the debug-assertion build), every Frame method, borrowed slice views and in-place ops, Bounded/Fixed ring buffers over array / &mut / Vec / Box<[T]> storage (incl. extend() from iterators whose size_hint is exact, a loose upper bound or unknown, and from iterators of unknown length, shorter and longer than the buffer), rectifiers, RMS, envelope detectors, Floor/Linear/Sinc interpolators, window functions, every signal source and adaptor (incl. take / until_exhausted / interleaved samples / lift / by_ref), a scenario of rarely used entry points (conversion functions called directly, the FromSample / ToSample underscore traits, channel_mut, channels_mut().rev(), the from_* slice views, Bounded IndexMut / from_full / raw parts, Detect::detect, the Converter's source access and setters, Phase::next_phase_wrapped_to), fork by_ref and by_rc branches, buffered, rate conversion with every interpolator and mul_hz, rms / detect_envelope adaptors, Window / Windower / Windowed, random adaptor-tree compositions, graphs of stock nodes and wrappers (Graph and StableGraph, cycles, nested GraphNode, alternating output nodes, a mixer with 260..1000 inputs and channel-count mismatches in both directions) after a warm-up process call, and the bus in lock-step (backlog and live bytes constant, also after an output joined and was dropped while everything was in step). State is constructed unarmed; 16..2000 operations (thorough: 2e5) run armed; allocs == reallocs == frees == 0 and the checksum equals the unarmed run's. Round 7: Sinc / Linear converters over 16- and 9-channel frames and Debug formatting of Rms / Detector / ring buffers (rotated) into a non-allocating fmt::Write sink.",
    "Trusted: the counting allocator (self-tested at start-up). An allocation in an operation outside the catalogue is invisible; the catalogue is listed in the evidence.",
    "DESIGN.md §4 C07")

PENDING_REASON = "check not yet built in this round (design in DESIGN.md §4); nothing is claimed for it until its check is registered"

def main():
    props = [json.loads(l)["id"] for l in open(os.path.join(V, "properties.jsonl"))]
    checks = []
    for pid in props:
        if pid not in CHECKS:
            continue
        engine, technique, text, note, ref = CHECKS[pid]
        checks.append({
            "property_id": pid,
            "quick_cmd": "./check %s quick" % pid,
            "thorough_cmd": "./check %s thorough" % pid,
            "evidence_file": "/verif/evidence/%s.json" % pid,
            "replay_cmd_template": "./check %s quick --replay {path}" % pid,
            "engine": engine,
            "level_claimed": {"category": "exploration", "text": text, "design_ref": ref},
            "level_note": note,
            "technique": technique,
        })
    hooks_commits = []
    hp = os.path.join(V, "hooks_commits.txt")
    if os.path.exists(hp):
        hooks_commits = [l.strip() for l in open(hp) if l.strip()]
    m = {
        "version": 1,
        "setup_cmd": "./setup.sh",
        "hooks": {
            "guard": "--cfg rustaudio_dasp_verif",
            "enable": "harness/.cargo/config.toml and fuzz/.cargo/config.toml set build.rustflags = [\"--cfg\", \"rustaudio_dasp_verif\"]; every check builds /repo's crates as path dependencies with that flag",
            "baseline_off_cmd": "cd /repo && cargo test --workspace --no-fail-fast --offline",
            "source_commits": hooks_commits,
            "add_only": True,
        },
        "engines": [
            {"name": "vp_core", "path": "harness/vp_core", "serves_properties": props,
             "kind_free_text": "runner: proptest TestRunner (fixed seed, shrinking), sequential/parallel bounded-exhaustive enumeration, bulk loops; evidence, replay, known findings; reference models (exact amplitude arithmetic, soft-float), counting allocator"},
            {"name": "check", "path": "check", "serves_properties": props,
             "kind_free_text": "python driver: rebuilds harness binaries against /repo's working tree, runs them, merges evidence, maps outcomes to exit 0/1/2"},
        ],
        "checks": checks,
        "not_applicable": [{"property_id": p, "reason": PENDING_REASON} for p in props if p not in CHECKS],
        "notes": "Technique family: property-based testing and fuzzing. See DESIGN.md. exit 2 = inconclusive (build failure, self-test failure, starved generator class, watchdog) and is never a violation.",
    }
    json.dump(m, open(os.path.join(V, "MANIFEST.json"), "w"), indent=1)
    print("MANIFEST.json: %d checks, %d not claimed" % (len(checks), len(m["not_applicable"])))

if __name__ == "__main__":
    main()
