#!/usr/bin/env python3
"""Import one round of independently seeded changes from the scratch output directories into /verif/seeded/.

  seed_import.py <round> <scratch-prefix> <letters e.g. EF> <first-try log> <now log> [strengthening.json]

Reads /tmp/<prefix>_<ID>_out/{A,B,..}.diff, _demo.rs, _meta.txt, _confirm.json (one per letter given) and the two detection logs
(lines "Cxx-A [quick] DETECTED ..."), writes seeded/<ID>-<letter>/{patch.diff,demo.rs,meta.json} and prints the DESIGN table rows.
"""
import json, os, re, shutil, sys
V = os.path.dirname(os.path.dirname(os.path.abspath(__file__)))

def verdicts(path):
    out = {}
    for l in open(path):
        m = re.match(r"(C\d\d)-([A-Z]) \[(\w+)\] (\w+)", l)
        if m:
            out[(m.group(1), m.group(2))] = m.group(4)
    return out

def main():
    rnd, prefix, letters, first_log, now_log = sys.argv[1:6]
    strength = json.load(open(sys.argv[6])) if len(sys.argv) > 6 else {}
    first, now = verdicts(first_log), verdicts(now_log)
    rows = []
    for i in range(1, 21):
        pid = "C%02d" % i
        outd = "/tmp/%s_%s_out" % (prefix, pid)
        if not os.path.exists(outd):
            continue  # a round may cover only some of the properties
        for x, letter in zip("ABCDEFGH"[:len(letters)], letters):
            if not os.path.exists(os.path.join(outd, x + ".diff")):
                continue  # the author delivered fewer changes for this property
            d = os.path.join(V, "seeded", "%s-%s" % (pid, letter))
            os.makedirs(d, exist_ok=True)
            shutil.copy(os.path.join(outd, x + ".diff"), os.path.join(d, "patch.diff"))
            shutil.copy(os.path.join(outd, x + "_demo.rs"), os.path.join(d, "demo.rs"))
            desc = open(os.path.join(outd, x + "_meta.txt")).read()
            conf = json.load(open(os.path.join(outd, x + "_confirm.json")))
            f, n = first.get((pid, x), "NOT-RUN"), now.get((pid, x), first.get((pid, x), "NOT-RUN"))
            st = strength.get("%s-%s" % (pid, x))
            meta = {
                "property": pid, "variant": letter, "round": int(rnd),
                "origin": "written by a fresh sub-agent given only the property text, a scratch worktree of /repo and short descriptions of the earlier seeded changes for this property (to avoid duplicates); no access to /verif",
                "description_and_trigger": desc,
                "confirmed_by_me": {
                    "in": "scratch worktree /tmp/%s_%s (removed afterwards)" % (prefix, pid),
                    "existing_suite_with_change": "cargo test --workspace --no-fail-fast --offline: %d failed tests" % conf["suite_with_change_failed_tests"],
                    "demo_command": conf["demo_cmd"],
                    "demo_exit_status_with_change": conf["demo_with_change_rc"],
                    "demo_exit_status_without_change": conf["demo_without_change_rc"],
                    "confirmed": conf["confirmed"],
                },
                "detection": {
                    "how": "git -C /repo apply patch.diff; ./check %s quick; git -C /repo checkout -- ." % pid,
                    "quick_tier_when_first_tried": f,
                    "check_strengthened_because_of_this_change": st,
                    "quick_tier_now": n,
                },
            }
            json.dump(meta, open(os.path.join(d, "meta.json"), "w"), indent=1)
            short = " ".join(desc.split())[:230].replace("|", "/")
            rows.append("| %s-%s | %s | %s | %s |" % (pid, letter, short, f, st or "—"))
    print("\n".join(rows))

if __name__ == "__main__":
    main()
