#!/bin/sh
# usage: snapshot_pair.sh [create|remove] [suffix]   (suffix defaults to "snap")
# Creates a snapshot pair (/tmp/verif_<suffix>, /tmp/repo_<suffix>) of the committed /verif and /repo so that a long
# detection loop over the seeded changes does not occupy /repo:  VERIF_DIR=/tmp/verif_$SFX REPO=/tmp/repo_$SFX
# python3 /tmp/verif_$SFX/tools/seed_eval.py detect <ID> <X>.   Remove with:  tools/snapshot_pair.sh remove
set -e
SFX="${2:-snap}"
if [ "$1" = "remove" ]; then
  git -C /verif worktree remove --force /tmp/verif_$SFX 2>/dev/null || true
  git -C /repo worktree remove --force /tmp/repo_$SFX 2>/dev/null || true
  rm -rf /tmp/verif_$SFX /tmp/repo_$SFX
  git -C /verif worktree prune; git -C /repo worktree prune
  exit 0
fi
git -C /verif worktree add --detach /tmp/verif_$SFX HEAD >/dev/null
git -C /repo worktree add --detach /tmp/repo_$SFX HEAD >/dev/null
sed -i "s#path = \"/repo/#path = \"/tmp/repo_$SFX/#" /tmp/verif_$SFX/harness/*/Cargo.toml
cp /verif/tools/seed_eval.py /verif/tools/mutate.py /tmp/verif_$SFX/tools/
echo "snapshot pair ready"
