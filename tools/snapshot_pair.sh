#!/bin/sh
# Creates a snapshot pair (/tmp/verif_snap, /tmp/repo_snap) of the committed /verif and /repo so that a long
# detection loop over the seeded changes does not occupy /repo:  VERIF_DIR=/tmp/verif_snap REPO=/tmp/repo_snap
# python3 /tmp/verif_snap/tools/seed_eval.py detect <ID> <X>.   Remove with:  tools/snapshot_pair.sh remove
set -e
if [ "$1" = "remove" ]; then
  git -C /verif worktree remove --force /tmp/verif_snap 2>/dev/null || true
  git -C /repo worktree remove --force /tmp/repo_snap 2>/dev/null || true
  rm -rf /tmp/verif_snap /tmp/repo_snap
  git -C /verif worktree prune; git -C /repo worktree prune
  exit 0
fi
git -C /verif worktree add --detach /tmp/verif_snap HEAD >/dev/null
git -C /repo worktree add --detach /tmp/repo_snap HEAD >/dev/null
sed -i 's#path = "/repo/#path = "/tmp/repo_snap/#' /tmp/verif_snap/harness/*/Cargo.toml
cp /verif/tools/seed_eval.py /tmp/verif_snap/tools/seed_eval.py
echo "snapshot pair ready"
