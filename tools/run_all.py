#!/usr/bin/env python3
"""Run every registered check (default: quick) on the current tree; print one line each."""
import json, subprocess, sys, time, os
V = os.path.dirname(os.path.dirname(os.path.abspath(__file__)))
tier = sys.argv[1] if len(sys.argv) > 1 else "quick"
only = sys.argv[2:]  # optional list of ids
m = json.load(open(os.path.join(V, "MANIFEST.json")))
bad = 0
for c in m["checks"]:
    pid = c["property_id"]
    if only and pid not in only:
        continue
    t0 = time.time()
    p = subprocess.run([os.path.join(V, "check"), pid, tier], cwd=V, stdout=subprocess.PIPE, stderr=subprocess.STDOUT, text=True)
    lines = p.stdout.splitlines()
    viol = [l for l in lines if l.startswith("VIOLATION")]
    known = [l for l in lines if l.startswith("KNOWN-FINDING")]
    print("%s rc=%d %.1fs %s %s" % (pid, p.returncode, time.time() - t0, ("VIOLATIONS=%d" % len(viol)) if viol else "", ("known=%d" % len(known)) if known else ""), flush=True)
    if p.returncode != 0:
        bad += 1
        print("\n".join(lines[-15:]))
sys.exit(1 if bad else 0)
