#!/usr/bin/env python3
"""Summarise an operator-mutation campaign (tools/mutate.py) as markdown for DESIGN section 9.3.

  mutation_report.py <results.jsonl> <rerun.jsonl>

<results.jsonl>: first pass, every mutant against its own property's quick check.
<rerun.jsonl>:   second pass (mutate.py rerun) of everything not killed, against the own check and every co-anchored check.
The classification of the remaining survivors below was made by reading each one (equivalent = no input distinguishes it
from the original; outside = the changed behaviour is not part of any listed property's statement)."""
import collections
import json
import sys

WHY = {
    ("dasp_signal/src/lib.rs", 2301): ("own check, final harness", "IntoInterleavedSamples::next_sample without `current_frame = None` recurses without bound: a stack overflow, which killed the harness binary (exit 2) when the re-run snapshot was taken; with the alternate signal stack added afterwards C05 reports it as a violation with its case (verified by hand)"),
    ("dasp_signal/src/lib.rs", 2494): ("hang (exit 2)", "Buffered::next without the refill push never returns: the watchdog reports it as inconclusive (verified by hand)"),
    ("dasp_signal/src/lib.rs", 2380): ("equivalent", "clip_amp: `s > thresh` -> `>=`: at s == thresh both branches return thresh"),
    ("dasp_signal/src/lib.rs", 2382): ("equivalent", "clip_amp: `s < -thresh` -> `<=`: at s == -thresh both branches return -thresh"),
    ("dasp_signal/src/interpolate.rs", 48): ("equivalent", "an assert on the argument (`scale > 0.0` -> `>= 0.0`): identical for every admissible ratio"),
    ("dasp_interpolate/src/floor.rs", 50): ("outside", "Floor::reset: resetting the floor / linear interpolators is not part of any listed statement (C18 states it for Sinc only)"),
    ("dasp_interpolate/src/linear.rs", 64): ("outside", "Linear::reset, as above"),
    ("dasp_interpolate/src/linear.rs", 65): ("outside", "Linear::reset, as above"),
    ("dasp_sample/src/lib.rs", 310): ("other", "FloatSample::IDENTITY for f32: used by the rectangle window only; C20 (not co-anchored on this file) reports it: 'rectangle::<f32>(0) = 0.5'"),
    ("dasp_sample/src/lib.rs", 318): ("other", "FloatSample::IDENTITY for f64, as above: C20 reports 'rectangle(0) = 0.5'"),
    ("dasp_rms/src/lib.rs", 152): ("equivalent", "`diff < 0` -> `<= 0` before clamping to 0: at diff == 0 both give 0"),
    ("dasp_signal/src/bus.rs", 228): ("equivalent", "`least_frames_read > 0` -> `>= 0`: draining 0 frames is a no-op"),
    ("dasp_signal/src/lib.rs", 2076): ("outside", "inside the simplex-noise kernel: the statement only bounds its output to [-1, 1] and the mutant stays inside"),
    ("dasp_signal/src/lib.rs", 2064): ("outside", "simplex-noise kernel, as above"),
    ("dasp_signal/src/lib.rs", 2053): ("outside", "simplex-noise kernel, as above"),
    ("dasp_signal/src/lib.rs", 2081): ("outside", "simplex-noise kernel, as above"),
    ("dasp_interpolate/src/sinc/mod.rs", 83): ("equivalent", "`rightmost >= len` -> `>`: at equality both branches give max_depth = depth"),
    ("dasp_interpolate/src/sinc/mod.rs", 106): ("equivalent", "right-hand kernel half `a == 0.0` -> `a == 1.0`: a = pi (1 - x + n) is 0 only for x = 1 (outside [0, 1)) and an f64 with pi (1 - x + n) == 1.0 exactly is never produced"),
    ("dasp_peak/src/lib.rs", 80): ("equivalent", "`s < 0` -> `<= 0` then negate / zero: at 0 both give 0"),
    ("dasp_peak/src/lib.rs", 94): ("equivalent", "as above for the positive half wave"),
    ("dasp_peak/src/lib.rs", 66): ("equivalent", "as above for the full wave"),
    ("dasp_envelope/src/detect/mod.rs", 82): ("equivalent", "`l < d` -> `<=` selects the gain: at l == d the gain multiplies 0"),
    ("dasp_signal/src/window/mod.rs", 143): ("equivalent", "`hop < len` -> `<=`: at hop == len the slice `frames[hop..]` is empty, as is `&[]`"),
    ("dasp_ring_buffer/src/lib.rs", 587): ("equivalent", "slices_mut: at `start.len() == len` both branches return the same two slices"),
    ("dasp_graph/src/lib.rs", 219): ("equivalent", "Processor::with_capacity without pre-sizing the stack: the stack grows in the priming call that C07 excludes from steady state, and no other property observes a capacity"),
    ("dasp_sample/src/conv.rs", 259): ("equivalent", "I24 -> u64 `(s + 2^23) << 40` -> `(s - 2^23) << 40`: the shift keeps only the low 24 bits, where +2^23 and -2^23 agree"),
    ("dasp_sample/src/types.rs", 125): ("equivalent", "wrap loop `> MAX` -> `>= MAX`: MAX itself is taken down by 2^bits and brought straight back by the second loop"),
}


def main():
    first = [json.loads(l) for l in open(sys.argv[1])]
    rerun = {(r["property"], r["file"], r["line"], r["op"]): r for r in (json.loads(l) for l in open(sys.argv[2]))}
    per = collections.defaultdict(collections.Counter)
    rest = []
    for r in first:
        p = r["property"]
        per[p]["mutants"] += 1
        if r["verdict"] == "unusable":
            per[p]["does not compile"] += 1
            continue
        if r["verdict"] == "killed":
            per[p]["own check, first pass"] += 1
            continue
        rr = rerun.get((p, r["file"], r["line"], r["op"]))
        if rr is None:
            per[p]["not re-run"] += 1
            continue
        kb = rr.get("killed_by")
        if kb == p:
            per[p]["own check, final harness"] += 1
        elif kb:
            per[p]["co-anchored check"] += 1
            rest.append((p, r, "killed by %s" % kb))
        elif rr["verdict"] == "hang":
            per[p]["hang (exit 2)"] += 1
            rest.append((p, r, "the library does not return: reported as inconclusive (exit 2) by the watchdog"))
        else:
            kind, why = WHY.get((r["file"], r["line"]), ("UNCLASSIFIED", ""))
            per[p][kind] += 1
            rest.append((p, r, "%s: %s" % (kind, why)))
    cols = ["mutants", "does not compile", "own check, first pass", "own check, final harness", "co-anchored check", "hang (exit 2)", "other", "equivalent", "outside", "UNCLASSIFIED", "not re-run"]
    cols = [c for c in cols if any(per[p][c] for p in per)]
    print("| property | " + " | ".join(cols) + " |")
    print("|---|" + "---|" * len(cols))
    tot = collections.Counter()
    for p in sorted(per):
        print("| %s | " % p + " | ".join(str(per[p][c]) for c in cols) + " |")
        tot.update(per[p])
    print("| all | " + " | ".join(str(tot[c]) for c in cols) + " |")
    print()
    for p, r, why in rest:
        if why.startswith("killed by"):
            continue
        print("* %s `%s:%d` %s (`%s`) - %s" % (p, r["file"], r["line"], r["op"], " ".join(r["old"].split())[:90], why))


if __name__ == "__main__":
    main()
