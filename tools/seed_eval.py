#!/usr/bin/env python3
"""Seeded-change evaluation.
  seed_eval.py detect <ID> <A|B> [tier]   apply /tmp/seed_<ID>_out/<X>.diff (or seeded/<ID>-<X>/patch.diff) to /repo,
                                          run ./check <ID> <tier>, ALWAYS revert /repo; prints DETECTED / MISSED / INCONCLUSIVE
  seed_eval.py confirm <ID> <A|B>         in the scratch worktree /tmp/seed_<ID>: apply the diff, run the repository's own
                                          suite (must pass), run the demo (must fail), revert, run the demo (must pass)
"""
import os, re, subprocess, sys, shutil, json
V = os.environ.get("VERIF_DIR", "/verif")
REPO = os.environ.get("REPO", "/repo")  # the tree the patch is applied to (a snapshot pair can be used to keep /repo free)
R = os.environ.get("SEED_ROUND", "seed")  # scratch prefix: /tmp/<R>_<ID> and /tmp/<R>_<ID>_out
def sh(cmd, cwd=None, env=None, timeout=3600):
    e = dict(os.environ); e["CARGO_NET_OFFLINE"] = "true"
    if env: e.update(env)
    p = subprocess.run(cmd, cwd=cwd, env=e, shell=isinstance(cmd, str), stdout=subprocess.PIPE, stderr=subprocess.STDOUT, text=True, timeout=timeout)
    return p.returncode, p.stdout

def patch_path(pid, x):
    p = os.path.join(V, "seeded", "%s-%s" % (pid, x), "patch.diff")
    if R == "seed" and os.path.exists(p): return p
    return "/tmp/%s_%s_out/%s.diff" % (R, pid, x)

def detect(pid, x, tier):
    patch = patch_path(pid, x)
    rc, out = sh(["git", "-C", REPO, "status", "--porcelain", "--untracked-files=no"])
    if out.strip():
        print("ERROR: %s is dirty" % REPO); return 3
    rc, out = sh(["git", "-C", REPO, "apply", patch])
    if rc != 0:
        print("ERROR: patch does not apply:", out); return 3
    try:
        rc, out = sh([os.path.join(V, "check"), pid, tier], cwd=V)
    finally:
        sh(["git", "-C", REPO, "checkout", "--", "."])
    viol = [l for l in out.splitlines() if l.startswith("VIOLATION")]
    # HARVEST=<dir>: keep the first violating case as a stored regression input <dir>/<ID>/seeded-<X>.json
    harvest = os.environ.get("HARVEST")
    if harvest and rc == 1 and viol:
        m = re.search(r"replay=(\S+)", viol[0])
        if m and os.path.exists(m.group(1)) and "/replays/new/" in m.group(1):
            os.makedirs(os.path.join(harvest, pid), exist_ok=True)
            shutil.copy(m.group(1), os.path.join(harvest, pid, "seeded-%s.json" % x))
    msgs = [l for l in out.splitlines() if l.startswith("  message")]
    verdict = {0: "MISSED", 1: "DETECTED"}.get(rc, "INCONCLUSIVE rc=%d" % rc)
    print("%s-%s [%s] %s  violations=%d" % (pid, x, tier, verdict, len(viol)))
    for m in msgs[:2]: print("   ", m.strip()[:300])
    if rc not in (0, 1): print("\n".join(out.splitlines()[-12:]))
    shutil.rmtree(os.path.join(V, "replays", "new"), ignore_errors=True)
    return rc

def confirm(pid, x):
    wt = "/tmp/%s_%s" % (R, pid)
    outd = "/tmp/%s_%s_out" % (R, pid)
    patch = os.path.join(outd, x + ".diff")
    demo = os.path.join(outd, x + "_demo.rs")
    head = open(demo).read(3000)
    m = re.search(r"place in\s+`?([A-Za-z_0-9]+/tests)/?`?", head)
    if not m:
        print("ERROR: cannot find 'place in <crate>/tests' in demo header"); return 3
    tdir = m.group(1); crate = tdir.split("/")[0]
    # every feature of the demo's crate is enabled (a superset of whatever the demo's header or cfg attributes ask for),
    # unless the demo is explicitly about the no-default-features build
    feats = ["--all-features"]
    rustflags = "--cfg rustaudio_dasp_verif" if "rustaudio_dasp_verif" in head else None
    release = any(("cargo test" in l and "--release" in l) for l in head.splitlines())
    if "--no-default-features" in head: feats = ["--no-default-features"]
    if os.environ.get("SEED_FEATS") is not None:
        feats = os.environ["SEED_FEATS"].split()
    name = "seed_%s_%s_demo" % (pid.lower(), x.lower())
    sh("git checkout -- . && git clean -fdq -e target", cwd=wt)
    rc, out = sh(["git", "apply", patch], cwd=wt)
    if rc != 0: print("ERROR: patch does not apply", out); return 3
    res = {}
    rc, out = sh("cargo test --workspace --no-fail-fast --offline 2>&1 | grep -E '^test result|FAILED|^error' ", cwd=wt)
    failed = sum(int(n) for n in re.findall(r"(\d+) failed", out))
    res["suite_with_change_failed_tests"] = failed
    res["suite_with_change_ok"] = (failed == 0 and "error" not in out)
    os.makedirs(os.path.join(wt, tdir), exist_ok=True)
    shutil.copy(demo, os.path.join(wt, tdir, name + ".rs"))
    env = {"RUSTFLAGS": rustflags} if rustflags else None
    cmd = ["cargo", "test", "-p", crate, "--test", name, "--offline"] + feats + (["--release"] if release else [])
    rc1, out1 = sh(cmd, cwd=wt, env=env)
    res["demo_with_change_rc"] = rc1
    sh(["git", "checkout", "--", "."], cwd=wt)
    rc2, out2 = sh(cmd, cwd=wt, env=env)
    res["demo_without_change_rc"] = rc2
    res["demo_cmd"] = " ".join(cmd) + ((" (RUSTFLAGS=%s)" % rustflags) if rustflags else "")
    os.remove(os.path.join(wt, tdir, name + ".rs"))
    sh("git checkout -- . && git clean -fdq -e target", cwd=wt)
    ok = res["suite_with_change_ok"] and rc1 != 0 and rc2 == 0
    res["confirmed"] = ok
    print("%s-%s confirm: %s %s" % (pid, x, "CONFIRMED" if ok else "NOT-CONFIRMED", json.dumps(res)))
    if not ok:
        print(out1[-1500:]); print(out2[-800:])
    json.dump(res, open(os.path.join(outd, x + "_confirm.json"), "w"), indent=1)
    return 0 if ok else 1

if __name__ == "__main__":
    mode, pid, x = sys.argv[1:4]
    if mode == "detect":
        sys.exit(detect(pid, x, sys.argv[4] if len(sys.argv) > 4 else "quick"))
    else:
        sys.exit(confirm(pid, x))
