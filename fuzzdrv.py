"""libFuzzer (ASan) campaigns for the thorough tier of the checks that rest on `unsafe`.
The fuzz targets link the same byte->case decoder, interpreter and oracle as the ordinary
binaries; a failing case is written as an ordinary JSON replay file by the target itself."""
import glob
import os
import re
import shutil
import subprocess

VERIF = os.path.dirname(os.path.abspath(__file__))
HARNESS = os.path.join(VERIF, "harness")
FUZZ = os.path.join(VERIF, "fuzz")


def campaign(pid, spec, seed, log):
    target, runs = spec
    env = dict(os.environ)
    env["CARGO_NET_OFFLINE"] = "true"
    env["RUSTFLAGS"] = "--cfg rustaudio_dasp_verif"
    env["VP_VERIF_DIR"] = VERIF
    base = ["cargo", "+nightly", "fuzz"]
    try:
        b = subprocess.run(base + ["build", "--fuzz-dir", "../fuzz", target], cwd=HARNESS, env=env,
                           stdout=subprocess.PIPE, stderr=subprocess.STDOUT, text=True, timeout=3600)
    except subprocess.TimeoutExpired:
        log("INCONCLUSIVE: fuzz build of %s timed out" % target)
        return 2, None
    if b.returncode != 0:
        log("INCONCLUSIVE: fuzz target %s does not build:\n%s" % (target, "\n".join(b.stdout.splitlines()[-30:])))
        return 2, None
    corpus = os.path.join(FUZZ, "corpus", target)
    shutil.rmtree(corpus, ignore_errors=True)
    os.makedirs(corpus)
    for f in glob.glob(os.path.join(FUZZ, "seeds", target, "*")):
        shutil.copy(f, corpus)
    art = os.path.join(FUZZ, "artifacts", target)
    shutil.rmtree(art, ignore_errors=True)
    lf_seed = (seed % (2 ** 31 - 1)) + 1
    cmd = base + ["run", "--fuzz-dir", "../fuzz", target, corpus, "--",
                  "-runs=%d" % runs, "-seed=%d" % lf_seed, "-len_control=0", "-max_len=1024",
                  "-timeout=60", "-rss_limit_mb=8000", "-print_final_stats=1"]
    try:
        r = subprocess.run(cmd, cwd=HARNESS, env=env, stdout=subprocess.PIPE, stderr=subprocess.STDOUT, text=True, timeout=4 * 3600)
    except subprocess.TimeoutExpired:
        log("INCONCLUSIVE: fuzz campaign %s hit its watchdog" % target)
        return 2, None
    out = r.stdout
    viol = [l for l in out.splitlines() if l.startswith("VIOLATION property=%s " % pid)]
    execs = re.search(r"stat::number_of_executed_units:\s*(\d+)", out)
    cov = re.findall(r"cov: (\d+)", out)
    note = {"target": target, "engine": "libFuzzer + AddressSanitizer (cargo-fuzz, nightly)", "runs_requested": runs,
            "executed_units": int(execs.group(1)) if execs else None, "final_coverage_edges": int(cov[-1]) if cov else None,
            "seed": lf_seed, "corpus_files_after": len(os.listdir(corpus))}
    if viol:
        for l in out.splitlines():
            if l.startswith(("VIOLATION", "  sub-check", "  message")):
                log(l)
        return 1, note
    if r.returncode != 0:
        # a crash the in-process oracle could not report (ASan memory error, fatal signal): convert the artifact
        arts = glob.glob(os.path.join(art, "crash-*")) + glob.glob(os.path.join(art, "leak-*"))
        binp = os.path.join(FUZZ, "target", "x86_64-unknown-linux-gnu", "release", target)
        conv = 0
        for a in arts[:5]:
            e2 = dict(env)
            e2["VP_DUMP_CASE"] = "1"
            c = subprocess.run([binp, a], env=e2, stdout=subprocess.PIPE, stderr=subprocess.STDOUT, text=True)
            for l in c.stdout.splitlines():
                if l.startswith(("VIOLATION", "  sub-check", "  message")):
                    log(l)
                    conv += 1
        if conv:
            log("  libFuzzer/ASan report (tail):\n" + "\n".join(out.splitlines()[-25:]))
            return 1, note
        log("INCONCLUSIVE: fuzz campaign %s ended abnormally (status %d) without a reportable case:\n%s" % (target, r.returncode, "\n".join(out.splitlines()[-25:])))
        return 2, note
    log("[fuzz] %s: %s executions, coverage %s edges, no failure" % (target, note["executed_units"], note["final_coverage_edges"]))
    return 0, note
