#![no_main]
use libfuzzer_sys::fuzz_target;
include!("common.rs");
fuzz_target!(|data: &[u8]| {
    judge("C12", "random-schedules", &vp_buf::fuzzdec::fork(data), vp_buf::c12::check);
});
