#![no_main]
use libfuzzer_sys::fuzz_target;
include!("common.rs");
fuzz_target!(|data: &[u8]| {
    if data.is_empty() {
        return;
    }
    if data[0] % 2 == 0 {
        judge("C10", "views/random-lengths", &vp_buf::fuzzdec::view(&data[1..]), vp_buf::c10::check_view);
    } else {
        judge("C10", "ops/random-lengths", &vp_buf::fuzzdec::slice_op(&data[1..]), vp_buf::c10::check_op);
    }
});
