#![no_main]
use libfuzzer_sys::fuzz_target;
include!("common.rs");
fuzz_target!(|data: &[u8]| {
    judge("C11", "histories", &vp_sig::fuzzdec::rms(data), vp_sig::c11_core::check);
});
