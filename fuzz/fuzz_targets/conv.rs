#![no_main]
use libfuzzer_sys::fuzz_target;
include!("common.rs");
fuzz_target!(|data: &[u8]| {
    judge("C08", "random-runs", &vp_sig::fuzzdec::conv(data), vp_sig::c08::check);
});
