#![no_main]
use libfuzzer_sys::fuzz_target;
include!("common.rs");
fuzz_target!(|data: &[u8]| {
    judge("C16", "random-configurations", &vp_graph::fuzzdec::node(data), vp_graph::c16::check);
});
