#![no_main]
use libfuzzer_sys::fuzz_target;
include!("common.rs");
fuzz_target!(|data: &[u8]| {
    judge("C17", "oscillators/random", &vp_sig::fuzzdec::osc(data), vp_sig::c17::check_osc);
});
