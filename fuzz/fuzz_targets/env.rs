#![no_main]
use libfuzzer_sys::fuzz_target;
include!("common.rs");
fuzz_target!(|data: &[u8]| {
    judge("C19", "envelope/histories", &vp_sig::fuzzdec::env(data), vp_sig::c19::check_env);
});
