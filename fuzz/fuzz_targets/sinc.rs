#![no_main]
use libfuzzer_sys::fuzz_target;
include!("common.rs");
fuzz_target!(|data: &[u8]| {
    judge("C18", "random", &vp_sig::fuzzdec::sinc(data), vp_sig::c18::check);
});
