#![no_main]
use libfuzzer_sys::fuzz_target;
include!("common.rs");
fuzz_target!(|data: &[u8]| {
    judge("C09", "random-graphs", &vp_graph::fuzzdec::graph(data), vp_graph::c09::check);
});
