#![no_main]
use libfuzzer_sys::fuzz_target;
include!("common.rs");
fuzz_target!(|data: &[u8]| {
    judge("C14", "random-configurations", &vp_buf::fuzzdec::buffered(data), vp_buf::c14::check);
});
