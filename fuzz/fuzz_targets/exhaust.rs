#![no_main]
use libfuzzer_sys::fuzz_target;
include!("common.rs");
fuzz_target!(|data: &[u8]| {
    judge("C05", "random-trees", &vp_sig::fuzzdec::exhaust(data), vp_sig::c05::check);
});
