// shared by every target via include!: run one decoded case through the ordinary interpreter +
// oracle; on failure write the JSON replay file the ordinary binaries understand, print the
// VIOLATION line and abort (libFuzzer then saves the byte artifact as well).
use serde::Serialize;
use vp_core::{pan, Stats};

#[allow(dead_code)]
fn judge<T: Serialize>(prop: &str, sub: &str, case: &T, check: impl FnOnce(&T, &mut Stats) -> Result<(), String>) {
    if std::env::var_os("VP_DUMP_CASE").is_some() {
        // artifact -> replay conversion for crashes the in-process oracle could not report (ASan)
        dump(prop, sub, case, "memory error reported by AddressSanitizer / fatal signal under libFuzzer");
        std::process::exit(0);
    }
    pan::set_identity(prop, std::path::PathBuf::from(verif_dir()), "thorough", 0);
    let mut st = Stats::default();
    let mk = || serde_json::to_value(case).unwrap_or(serde_json::Value::Null);
    let r = pan::with_case(sub, &mk, || pan::catch(|| check(case, &mut st)));
    let msg = match r {
        Ok(Ok(())) => return,
        Ok(Err(m)) => m,
        Err(p) => format!("panic: {}", p),
    };
    if msg.starts_with("bad case") {
        return;
    }
    dump(prop, sub, case, &msg);
    std::process::abort();
}

fn verif_dir() -> String {
    std::env::var("VP_VERIF_DIR").unwrap_or_else(|_| "/verif".into())
}

#[allow(dead_code)]
fn dump<T: Serialize>(prop: &str, sub: &str, case: &T, msg: &str) {
    let v = serde_json::to_value(case).unwrap_or(serde_json::Value::Null);
    let s = serde_json::to_string(&v).unwrap_or_default();
    let mut h: u64 = 0xcbf2_9ce4_8422_2325;
    for b in s.bytes().chain(sub.bytes()) {
        h = (h ^ b as u64).wrapping_mul(0x1000_0000_01b3);
    }
    let dir = format!("{}/replays/new", verif_dir());
    let _ = std::fs::create_dir_all(&dir);
    let p = format!("{}/{}-{}-fuzz-{:016x}.json", dir, prop, sub.replace('/', "_"), h);
    let doc = serde_json::json!({"property": prop, "sub": sub, "case": v, "message": msg, "tier": "thorough", "engine": "libFuzzer"});
    let _ = std::fs::write(&p, serde_json::to_string_pretty(&doc).unwrap_or_default());
    println!("VIOLATION property={} replay={}", prop, p);
    println!("  sub-check: {}", sub);
    println!("  message:   {}", msg.chars().take(1500).collect::<String>());
}
