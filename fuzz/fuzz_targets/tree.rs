#![no_main]
use libfuzzer_sys::fuzz_target;
include!("common.rs");
fuzz_target!(|data: &[u8]| {
    judge("C04", "random-trees", &vp_sig::fuzzdec::tree(data), vp_sig::c04::check);
});
