#![no_main]
use libfuzzer_sys::fuzz_target;
include!("common.rs");
fuzz_target!(|data: &[u8]| {
    if data.is_empty() {
        return;
    }
    if data[0] % 2 == 0 {
        judge("C06", "bounded/histories", &vp_buf::fuzzdec::bounded(&data[1..]), vp_buf::rb::check_bounded);
    } else {
        judge("C06", "fixed/histories", &vp_buf::fuzzdec::fixed(&data[1..]), vp_buf::rb::check_fixed);
    }
});
