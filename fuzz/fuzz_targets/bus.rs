#![no_main]
use libfuzzer_sys::fuzz_target;
include!("common.rs");
fuzz_target!(|data: &[u8]| {
    judge("C13", "random-op-sequences", &vp_buf::fuzzdec::bus(data), vp_buf::c13::check);
});
