#![no_main]
use libfuzzer_sys::fuzz_target;
include!("common.rs");
fuzz_target!(|data: &[u8]| {
    judge("C20", "windower/random-triples", &vp_sig::fuzzdec::windower(data), vp_sig::c20::check_chunks);
});
