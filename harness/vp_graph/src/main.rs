fn main() {
    let mut ctx = vp_core::Ctx::from_args();
    ctx.self_test("allocator", vp_core::alloc::self_test());
    match ctx.id.as_str() {
        "C09" => vp_graph::c09::run(&mut ctx),
        "C16" => vp_graph::c16::run(&mut ctx),
        other => {
            eprintln!("vp_graph: unknown property {}", other);
            std::process::exit(2);
        }
    }
    std::process::exit(ctx.finish());
}
