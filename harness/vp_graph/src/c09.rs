//! C09 — graph processing runs exactly the upstream subgraph, once each, inputs first.

use dasp_graph::{Buffer, Input, Node, NodeData, Processor};
use petgraph::graph::{Graph, NodeIndex};
use petgraph::stable_graph::StableGraph;
use proptest::prelude::*;
use serde::{Deserialize, Serialize};
use std::cell::RefCell;
use std::collections::{BTreeMap, BTreeSet};
use std::rc::Rc;
use vp_core::{ensure, CheckResult, Ctx, Stats};

#[derive(Clone, Debug)]
struct Rec {
    id: usize,
    input_ptrs: Vec<usize>,
    /// number of buffers each input presents
    input_lens: Vec<usize>,
    own_ptr: usize,
}

type Log = Rc<RefCell<Vec<Rec>>>;

/// instrumented node: records (identity, input buffer pointers, own buffer pointer) and
/// computes out = id + sum of the first buffer of every input (small integers: exact in f32)
struct ProbeNode {
    id: usize,
    log: Log,
    /// when it holds this node's id the node panics instead of processing (the case asked for it)
    bomb: Rc<std::cell::Cell<Option<usize>>>,
}

impl Node for ProbeNode {
    fn process(&mut self, inputs: &[Input], output: &mut [Buffer]) {
        if self.bomb.get() == Some(self.id) {
            panic!("probe node {} panics on request", self.id);
        }
        let rec = Rec {
            id: self.id,
            input_ptrs: inputs.iter().map(|i| i.buffers().as_ptr() as usize).collect(),
            input_lens: inputs.iter().map(|i| i.buffers().len()).collect(),
            own_ptr: output.as_ptr() as usize,
        };
        self.log.borrow_mut().push(rec);
        let mut acc = self.id as f32;
        for i in inputs {
            if let Some(b) = i.buffers().first() {
                acc += b[0];
            }
        }
        for b in output.iter_mut() {
            for s in b.iter_mut() {
                *s = acc;
            }
        }
    }
}

#[derive(Clone, Debug, Serialize, Deserialize)]
pub struct Case {
    /// StableGraph (true) or Graph (false)
    pub stable: bool,
    pub n: usize,
    /// directed edges between logical node labels (parallel edges and self-loops allowed)
    pub edges: Vec<(usize, usize)>,
    /// StableGraph only: logical labels removed after construction (their edges go with them)
    pub removed: Vec<usize>,
    /// StableGraph only: nodes added after the removals (they reuse vacant slots); labels n, n+1, ...
    pub added: usize,
    /// edges added after that (may involve the late nodes); edges touching removed nodes are skipped
    pub late_edges: Vec<(usize, usize)>,
    /// output node (logical label, taken modulo the live nodes) of each consecutive process call
    pub outputs: Vec<usize>,
    pub proc_capacity: usize,
    /// output buffers per logical label (cycled; empty = one buffer each).  Zero-buffer nodes
    /// (meters, recorders) are legal and must still be processed.
    #[serde(default)]
    pub bufs: Vec<usize>,
    /// before the checked calls, one process call (towards the first output node) during which this node panics; the
    /// panic is caught and the same processor is used for the checked calls
    #[serde(default)]
    pub panic_label: Option<usize>,
}

/// the two containers behind one interface
enum G {
    Plain(Graph<NodeData<ProbeNode>, ()>),
    Stable(StableGraph<NodeData<ProbeNode>, ()>),
}

pub fn check(c: &Case, st: &mut Stats) -> CheckResult {
    let log: Log = Rc::new(RefCell::new(Vec::new()));
    let total = c.n + if c.stable { c.added } else { 0 };
    ensure!(total >= 1, "bad case: empty graph");
    let nbufs = |id: usize| -> usize { if c.bufs.is_empty() { 1 } else { c.bufs[id % c.bufs.len()] } };
    let bomb: Rc<std::cell::Cell<Option<usize>>> = Rc::new(std::cell::Cell::new(None));
    let mk = |id: usize| NodeData::new(ProbeNode { id, log: log.clone(), bomb: bomb.clone() }, vec![Buffer::SILENT; nbufs(id)]);
    let mut g = if c.stable { G::Stable(StableGraph::with_capacity(0, 0)) } else { G::Plain(Graph::with_capacity(0, 0)) };
    let mut idx: BTreeMap<usize, NodeIndex> = BTreeMap::new();
    let mut live: BTreeSet<usize> = BTreeSet::new();
    let mut edges: Vec<(usize, usize)> = Vec::new();
    for l in 0..c.n {
        let ix = match &mut g {
            G::Plain(g) => g.add_node(mk(l)),
            G::Stable(g) => g.add_node(mk(l)),
        };
        idx.insert(l, ix);
        live.insert(l);
    }
    for &(a, b) in &c.edges {
        if a < c.n && b < c.n {
            match &mut g {
                G::Plain(g) => {
                    g.add_edge(idx[&a], idx[&b], ());
                }
                G::Stable(g) => {
                    g.add_edge(idx[&a], idx[&b], ());
                }
            }
            edges.push((a, b));
        }
    }
    let mut vacant_now = 0usize;
    if let G::Stable(sg) = &mut g {
        for &r in &c.removed {
            if live.len() > 1 && live.remove(&r) {
                sg.remove_node(idx[&r]);
                idx.remove(&r);
                edges.retain(|&(a, b)| a != r && b != r);
                vacant_now += 1;
            }
        }
        for j in 0..c.added {
            let l = c.n + j;
            let ix = sg.add_node(mk(l));
            idx.insert(l, ix);
            live.insert(l);
            vacant_now = vacant_now.saturating_sub(1);
        }
    }
    for &(a, b) in &c.late_edges {
        if live.contains(&a) && live.contains(&b) {
            match &mut g {
                G::Plain(g) => {
                    g.add_edge(idx[&a], idx[&b], ());
                }
                G::Stable(g) => {
                    g.add_edge(idx[&a], idx[&b], ());
                }
            }
            edges.push((a, b));
        }
    }
    let live_v: Vec<usize> = live.iter().copied().collect();
    let by_index: BTreeMap<usize, usize> = idx.iter().map(|(l, ix)| (ix.index(), *l)).collect();

    // ---- sources() / sinks(): exactly the existing nodes with no incoming / no outgoing edge
    let exp_sources: BTreeSet<usize> = live_v.iter().copied().filter(|v| !edges.iter().any(|&(_, b)| b == *v)).collect();
    let exp_sinks: BTreeSet<usize> = live_v.iter().copied().filter(|v| !edges.iter().any(|&(a, _)| a == *v)).collect();
    let (got_sources, got_sinks): (Vec<usize>, Vec<usize>) = match &g {
        G::Plain(g) => (dasp_graph::sources(&g).map(|i| i.index()).collect(), dasp_graph::sinks(&g).map(|i| i.index()).collect()),
        G::Stable(g) => (dasp_graph::sources(&g).map(|i| i.index()).collect(), dasp_graph::sinks(&g).map(|i| i.index()).collect()),
    };
    for (name, got, exp) in [("sources", &got_sources, &exp_sources), ("sinks", &got_sinks, &exp_sinks)] {
        let mut labels = BTreeSet::new();
        for ix in got {
            match by_index.get(ix) {
                Some(l) => {
                    ensure!(labels.insert(*l), "{}() yields node index {} twice", name, ix);
                }
                None => return Err(format!("{}() yields index {} which is not an existing node (vacant slots: {}; live indices {:?})", name, ix, vacant_now, by_index.keys().collect::<Vec<_>>())),
            }
        }
        ensure!(&labels == exp, "{}() = {:?} (labels), expected exactly the existing nodes without {} edges {:?} (edges {:?}, vacant slots {})", name, labels, if name == "sources" { "incoming" } else { "outgoing" }, exp, edges, vacant_now);
    }

    // ---- process calls
    let has_self_loop = edges.iter().any(|&(a, b)| a == b);
    let mut pair_count: BTreeMap<(usize, usize), usize> = BTreeMap::new();
    for e in &edges {
        *pair_count.entry(*e).or_insert(0) += 1;
    }
    let has_parallel = pair_count.values().any(|&k| k > 1);
    let mut any_cycle = false;
    let mut any_unreached = false;
    let mut any_diamond = false;

    enum P {
        Plain(Processor<Graph<NodeData<ProbeNode>, ()>>),
        Stable(Processor<StableGraph<NodeData<ProbeNode>, ()>>),
    }
    let mut p = if c.stable { P::Stable(Processor::with_capacity(c.proc_capacity)) } else { P::Plain(Processor::with_capacity(c.proc_capacity)) };

    if let (Some(pl), Some(&o)) = (c.panic_label, c.outputs.first()) {
        // a node blows up in the middle of a traversal; whatever the processor had collected must not leak into later calls
        // the aborted call renders another output than the calls that follow it (pl / 8 steps further on, possibly 0)
        let out = live_v[(o + pl / 8) % live_v.len()];
        bomb.set(Some(live_v[pl % live_v.len()]));
        let r = vp_core::pan::catch(|| match (&mut p, &mut g) {
            (P::Plain(p), G::Plain(g)) => p.process(g, idx[&out]),
            (P::Stable(p), G::Stable(g)) => p.process(g, idx[&out]),
            _ => unreachable!(),
        });
        bomb.set(None);
        st.class_if(r.is_err(), "a node panicked during an earlier call on the same processor");
    }
    for (call, &o) in c.outputs.iter().enumerate() {
        let out = live_v[o % live_v.len()];
        // expected set: reverse reachability from the output node
        let mut expect: BTreeSet<usize> = BTreeSet::new();
        let mut stack = vec![out];
        while let Some(v) = stack.pop() {
            if expect.insert(v) {
                for &(a, b) in &edges {
                    if b == v && !expect.contains(&a) {
                        stack.push(a);
                    }
                }
            }
        }
        if expect.len() < live_v.len() {
            any_unreached = true;
        }
        log.borrow_mut().clear();
        match (&mut p, &mut g) {
            (P::Plain(p), G::Plain(g)) => p.process(g, idx[&out]),
            (P::Stable(p), G::Stable(g)) => p.process(g, idx[&out]),
            _ => unreachable!(),
        }
        let recs: Vec<Rec> = log.borrow().clone();
        // every upstream node exactly once, nothing else
        let mut seen = BTreeMap::new();
        for (pos, r) in recs.iter().enumerate() {
            ensure!(seen.insert(r.id, pos).is_none(), "call {} (output {}): node {} was processed twice (order {:?})", call, out, r.id, recs.iter().map(|r| r.id).collect::<Vec<_>>());
        }
        let got: BTreeSet<usize> = seen.keys().copied().collect();
        ensure!(
            got == expect,
            "call {} (output {}): processed nodes {:?}, but the nodes with a path to the output are {:?} (edges {:?})",
            call, out, got, expect, edges
        );
        // inputs: one per incoming edge from a different node, pointing at that neighbour's buffers
        let buf_ptr = |l: usize| -> usize {
            match &g {
                G::Plain(g) => g[idx[&l]].buffers.as_ptr() as usize,
                G::Stable(g) => g[idx[&l]].buffers.as_ptr() as usize,
            }
        };
        for r in &recs {
            // each input refers to ALL of that neighbour's output buffers, whatever the consumer's own channel count
            let mut exp_pl: Vec<(usize, usize)> = edges.iter().filter(|&&(a, b)| b == r.id && a != r.id).map(|&(a, _)| (buf_ptr(a), nbufs(a))).collect();
            let mut got_pl: Vec<(usize, usize)> = r.input_ptrs.iter().copied().zip(r.input_lens.iter().copied()).collect();
            exp_pl.sort();
            got_pl.sort();
            let mut exp_ptrs: Vec<usize> = edges.iter().filter(|&&(a, b)| b == r.id && a != r.id).map(|&(a, _)| buf_ptr(a)).collect();
            let mut got_ptrs = r.input_ptrs.clone();
            exp_ptrs.sort();
            got_ptrs.sort();
            ensure!(
                got_ptrs == exp_ptrs,
                "call {} node {}: received {} inputs, expected one per incoming edge from a different node = {} (edges {:?}); pointers {:?} vs {:?}",
                call, r.id, got_ptrs.len(), exp_ptrs.len(), edges, got_ptrs, exp_ptrs
            );
            ensure!(
                got_pl == exp_pl,
                "call {} node {} (which owns {} buffers): its inputs present (buffers pointer, buffer count) = {:?}, but the neighbours' output buffers are {:?}",
                call, r.id, nbufs(r.id), got_pl, exp_pl
            );
            ensure!(r.own_ptr == buf_ptr(r.id), "call {} node {}: output slice is not the node's own buffers", call, r.id);
            if nbufs(r.id) > 0 {
                ensure!(!r.input_ptrs.contains(&r.own_ptr), "call {} node {}: its own buffers were presented as an input", call, r.id);
            }
        }
        // acyclic upstream subgraph: inputs first, and outputs == functional evaluation
        let sub: Vec<(usize, usize)> = edges.iter().copied().filter(|(a, b)| expect.contains(a) && expect.contains(b) && a != b).collect();
        let mut indeg: BTreeMap<usize, usize> = expect.iter().map(|v| (*v, 0)).collect();
        for &(_, b) in &sub {
            *indeg.get_mut(&b).unwrap() += 1;
        }
        let mut order = Vec::new();
        let mut ready: Vec<usize> = indeg.iter().filter(|(_, d)| **d == 0).map(|(v, _)| *v).collect();
        let mut indeg2 = indeg.clone();
        while let Some(v) = ready.pop() {
            order.push(v);
            for &(a, b) in &sub {
                if a == v {
                    let d = indeg2.get_mut(&b).unwrap();
                    *d -= 1;
                    if *d == 0 {
                        ready.push(b);
                    }
                }
            }
        }
        let acyclic = order.len() == expect.len();
        if !acyclic {
            any_cycle = true;
        }
        if acyclic {
            for &(a, b) in &sub {
                ensure!(seen[&a] < seen[&b], "call {} (output {}): node {} was processed before its input {} (order {:?})", call, out, b, a, recs.iter().map(|r| r.id).collect::<Vec<_>>());
            }
            let mut val: BTreeMap<usize, f32> = BTreeMap::new();
            for &v in &order {
                let mut acc = v as f32;
                for &(a, b) in &sub {
                    if b == v && nbufs(a) > 0 {
                        acc += val[&a];
                    }
                }
                val.insert(v, acc);
            }
            // diamond: some node reachable along two different paths
            if sub.len() > expect.len().saturating_sub(1) {
                any_diamond = true;
            }
            for &v in expect.iter().filter(|v| nbufs(**v) > 0) {
                let b0 = match &g {
                    G::Plain(g) => g[idx[&v]].buffers[0][0],
                    G::Stable(g) => g[idx[&v]].buffers[0][0],
                };
                let b63 = match &g {
                    G::Plain(g) => g[idx[&v]].buffers[0][Buffer::LEN - 1],
                    G::Stable(g) => g[idx[&v]].buffers[0][Buffer::LEN - 1],
                };
                ensure!(b0 == val[&v] && b63 == val[&v], "call {} (output {}): node {} holds {} after processing, functional evaluation gives {}", call, out, v, b0, val[&v]);
            }
        }
    }
    st.nt(any_cycle || has_self_loop || has_parallel || any_unreached || any_diamond || (c.stable && vacant_now > 0));
    st.class_if(any_cycle, "upstream subgraph has a cycle");
    st.class_if(has_self_loop, "self-loop");
    st.class_if(has_parallel, "parallel edges");
    st.class_if(any_unreached, "a node that does not reach the output");
    st.class_if(any_diamond, "diamond (reconverging paths)");
    st.class_if(c.stable && vacant_now > 0, "stable graph with a vacant slot");
    st.class_if(c.stable && c.added > 0 && !c.removed.is_empty(), "slot reuse after removal");
    st.class_if(c.outputs.len() > 1, "repeated process calls on one processor");
    st.class_if((0..total).any(|l| nbufs(l) == 0), "node without output buffers");
    let max_indeg = live_v.iter().map(|v| edges.iter().filter(|&&(a, b)| b == *v && a != *v).count()).max().unwrap_or(0);
    st.class_if(max_indeg > 16 && max_indeg > c.proc_capacity, "in-degree above 16 and above the processor's capacity hint");
    Ok(())
}

// ------------------------------------------------------------------ graphs of stock nodes: functional evaluation

/// A loop-free graph built from the library's own nodes (sources: closures writing known blocks, or signal nodes over
/// finite signals; inner nodes: Sum, SumBuffers, Pass) with arbitrary channel counts, evaluated by an independent
/// reference over several process calls.  Values sit on the grid k/64, so sums are exact whatever the order.
#[derive(Clone, Debug, Serialize, Deserialize)]
pub struct StockCase {
    /// per source: (number of buffers, Some(l) = a signal node over a signal of l frames / None = a closure node)
    pub sources: Vec<(usize, Option<usize>)>,
    /// inner nodes in topological order: (kind 0 Sum | 1 SumBuffers | 2 Pass, number of buffers, inputs = indices into
    /// sources ++ earlier inner nodes; parallel edges allowed; Pass uses at most its first listed input)
    pub nodes: Vec<(u8, usize, Vec<usize>)>,
    pub calls: usize,
    pub stable: bool,
    pub salt: u32,
}

fn stock_val(salt: u32, src: usize, b: usize, t: usize) -> f32 {
    ((((src * 31 + b * 17 + t * 7 + salt as usize) % 129) as i32) - 64) as f32 / 64.0
}

pub fn check_stock(c: &StockCase, st: &mut Stats) -> CheckResult {
    use dasp_graph::node::{Pass, Sum, SumBuffers};
    use dasp_graph::BoxedNode;
    use dasp_signal_reg::Signal as RegSignal;
    const LEN: usize = Buffer::LEN;
    const SENT: f32 = 555.0;
    ensure!(!c.sources.is_empty() && !c.nodes.is_empty() && c.calls >= 1, "bad case: empty graph");
    let ns = c.sources.len();
    let salt = c.salt;
    let mut g: StableGraph<NodeData<BoxedNode>, ()> = StableGraph::with_capacity(0, 0);
    let mut plain: Graph<NodeData<BoxedNode>, ()> = Graph::with_capacity(0, 0);
    let mut ids_s = Vec::new();
    let mut ids_p = Vec::new();
    macro_rules! add {
        ($mk:expr, $nb:expr) => {{
            if c.stable {
                ids_s.push(g.add_node(NodeData::new($mk, vec![Buffer::from([SENT; LEN]); $nb])));
            } else {
                ids_p.push(plain.add_node(NodeData::new($mk, vec![Buffer::from([SENT; LEN]); $nb])));
            }
        }};
    }
    for (j, &(nb, sig)) in c.sources.iter().enumerate() {
        ensure!(nb <= 4, "bad case: too many buffers");
        match sig {
            None => {
                let mut t = 0usize;
                let f: Box<dyn FnMut(&[Input], &mut [Buffer])> = Box::new(move |_i, o| {
                    for (b, buf) in o.iter_mut().enumerate() {
                        for i in 0..LEN {
                            buf[i] = stock_val(salt, j, b, t + i);
                        }
                    }
                    t += LEN;
                });
                add!(BoxedNode::new(f), nb);
            }
            Some(l) => {
                let frames: Vec<[f32; 2]> = (0..l).map(|t| [stock_val(salt, j, 0, t), stock_val(salt, j, 1, t)]).collect();
                let sig: Box<dyn RegSignal<Frame = [f32; 2]>> = Box::new(dasp_signal_reg::from_iter(frames));
                add!(BoxedNode::new(sig), nb);
            }
        }
    }
    for (kind, nb, inputs) in &c.nodes {
        ensure!(*nb <= 4, "bad case: too many buffers");
        let idx_now = if c.stable { ids_s.len() } else { ids_p.len() };
        ensure!(inputs.iter().all(|i| *i < idx_now), "bad case: input is not an earlier node");
        match kind % 3 {
            0 => add!(BoxedNode::new(Sum), *nb),
            1 => add!(BoxedNode::new(SumBuffers), *nb),
            _ => add!(BoxedNode::new(Pass), *nb),
        }
        for &i in inputs {
            if c.stable {
                g.add_edge(ids_s[i], ids_s[idx_now], ());
            } else {
                plain.add_edge(ids_p[i], ids_p[idx_now], ());
            }
        }
    }
    let total = ns + c.nodes.len();
    // reference state: every node's buffers, carried across calls
    let nbufs = |k: usize| if k < ns { c.sources[k].0 } else { c.nodes[k - ns].1 };
    let mut state: Vec<Vec<Vec<f32>>> = (0..total).map(|k| vec![vec![SENT; LEN]; nbufs(k)]).collect();
    let out = total - 1;
    // upstream set of the output node
    let mut up = vec![false; total];
    let mut stack = vec![out];
    while let Some(v) = stack.pop() {
        if !up[v] {
            up[v] = true;
            if v >= ns {
                for &i in &c.nodes[v - ns].2 {
                    stack.push(i);
                }
            }
        }
    }
    let mut sig_ended = false;
    let mut mismatch = false;
    let mut ps = Processor::with_capacity(1);
    let mut pp = Processor::with_capacity(1);
    for call in 0..c.calls {
        if c.stable {
            ps.process(&mut g, ids_s[out]);
        } else {
            pp.process(&mut plain, ids_p[out]);
        }
        for k in 0..total {
            if !up[k] {
                continue;
            }
            if k < ns {
                let (nb, sig) = c.sources[k];
                for b in 0..nb {
                    for i in 0..LEN {
                        let t = call * LEN + i;
                        state[k][b][i] = match sig {
                            None => stock_val(salt, k, b, t),
                            // a signal node de-interleaves frames into the buffers it has; beyond the frame's channels: untouched
                            Some(l) if b < 2 => {
                                if t >= l {
                                    sig_ended = true;
                                    0.0
                                } else {
                                    stock_val(salt, k, b, t)
                                }
                            }
                            Some(_) => state[k][b][i],
                        };
                    }
                }
            } else {
                let (kind, nb, inputs) = &c.nodes[k - ns];
                match kind % 3 {
                    0 => {
                        for ch in 0..*nb {
                            for i in 0..LEN {
                                state[k][ch][i] = inputs.iter().filter(|j| nbufs(**j) > ch).map(|j| state[*j][ch][i]).sum();
                            }
                        }
                    }
                    1 => {
                        for i in 0..LEN {
                            let s: f32 = inputs.iter().map(|j| (0..nbufs(*j)).map(|b| state[*j][b][i]).sum::<f32>()).sum();
                            for ch in 0..*nb {
                                state[k][ch][i] = s;
                            }
                        }
                    }
                    _ => {
                        // which input the graph presents first is its business: with several inputs nothing is asserted
                        // for this node's own buffers beyond "copy of one input" (see C16); here Pass gets at most one
                        if let Some(&j) = inputs.first() {
                            if nbufs(j) != *nb {
                                mismatch = true;
                            }
                            for ch in 0..(*nb).min(nbufs(j)) {
                                for i in 0..LEN {
                                    state[k][ch][i] = state[j][ch][i];
                                }
                            }
                        }
                    }
                }
            }
        }
        for k in 0..total {
            for b in 0..nbufs(k) {
                let got: Vec<f32> = if c.stable { g[ids_s[k]].buffers[b].to_vec() } else { plain[ids_p[k]].buffers[b].to_vec() };
                for i in 0..LEN {
                    ensure!(
                        got[i] == state[k][b][i],
                        "call {}: node {} ({}) buffer {} sample {} = {}, the functional evaluation of the graph gives {}",
                        call, k, if k < ns { "source".to_string() } else { ["Sum", "SumBuffers", "Pass"][(c.nodes[k - ns].0 % 3) as usize].to_string() }, b, i, got[i], state[k][b][i]
                    );
                }
            }
        }
    }
    st.nt(true);
    st.class("graph of stock nodes");
    st.class_if(sig_ended, "stock graph: a signal node's signal ends during the run");
    st.class_if(mismatch, "stock graph: pass node with a different channel count than its input");
    st.class_if(up.iter().any(|u| !*u), "stock graph: a node outside the upstream set keeps its buffers");
    Ok(())
}

pub fn stock_strategy() -> impl Strategy<Value = StockCase> {
    (proptest::collection::vec((0usize..=3, prop_oneof![2 => Just(None), 1 => (0usize..200).prop_map(Some)]), 1..5), 1usize..6, 1usize..=4, any::<bool>(), any::<u32>()).prop_flat_map(|(sources, n_inner, calls, stable, salt)| {
        let ns = sources.len();
        let inner: Vec<_> = (0..n_inner).map(|k| (0u8..3, 0usize..=3, proptest::collection::vec(0..(ns + k), 0..4))).collect();
        (Just(sources), inner, Just(calls), Just(stable), Just(salt)).prop_map(|(sources, mut nodes, calls, stable, salt)| {
            for n in nodes.iter_mut() {
                if n.0 % 3 == 2 {
                    n.2.truncate(1); // Pass: a single input
                }
            }
            StockCase { sources, nodes, calls, stable, salt: salt % 1000 }
        })
    })
}

pub fn case_strategy(max_n: usize) -> impl Strategy<Value = Case> {
    (1usize..=max_n, any::<bool>()).prop_flat_map(|(n, stable)| {
        let e = proptest::collection::vec((0..n, 0..n), 0..(3 * n + 2));
        let late = proptest::collection::vec((0..n + 3, 0..n + 3), 0..6);
        (e, proptest::collection::vec(0..n, 0..(n / 2 + 1)), 0usize..3, late, proptest::collection::vec(0usize..64, 1..5), 0usize..(n + 2), prop_oneof![2 => Just(vec![]), 1 => proptest::collection::vec(0usize..=2, 1..5)], prop_oneof![3 => Just(None), 1 => (0usize..64).prop_map(Some)]).prop_map(
            move |(edges, removed, added, late_edges, outputs, proc_capacity, bufs, panic_label)| Case {
                stable,
                n,
                edges,
                removed: if stable { removed } else { vec![] },
                added: if stable { added } else { 0 },
                late_edges,
                outputs,
                proc_capacity,
                bufs,
                panic_label,
            },
        )
    })
}

pub fn run(ctx: &mut Ctx) {
    ctx.set_rule(
        "cases are (container Graph | StableGraph, node count, multiset of directed edges incl. self-loops and parallel edges, StableGraph: nodes removed after construction / nodes added afterwards (slot reuse) / late edges, \
         sequence of output nodes for consecutive process calls on one processor, processor capacity, optionally a node that panics (caught) during a call made before the checked ones); enumerated: every multigraph on up to 3 nodes with multiplicity 0..2 on each of the n^2 ordered pairs x every output node, \
         every digraph with self-loops on 4 nodes x every output node (thorough: 5 nodes without self-loops), every single-node removal of every 3-node stable multigraph; random: up to 14 nodes; loop-free graphs of the library's own Sum / SumBuffers / Pass nodes fed by closure nodes and finite signal nodes with 0..=3 buffers each, evaluated by an independent reference over 1..=4 calls; and mixers with 17..=80 incoming edges from up to 39 sources on a processor created with capacity 0..=5; \
         non-trivial: cycle, self-loop, parallel edge, a node not reaching the output, a diamond, or a vacant slot",
    );
    ctx.assume("nodes are instrumented (identity, input buffer pointers, own buffer pointer per invocation); expected set = reverse reachability over the harness's own edge list; the order of a node's inputs is unspecified and not asserted; values are small integers so that evaluation order cannot matter");
    for c in ["upstream subgraph has a cycle", "self-loop", "parallel edges", "a node that does not reach the output", "diamond (reconverging paths)", "stable graph with a vacant slot", "node without output buffers", "a node panicked during an earlier call on the same processor"] {
        ctx.require_class(c);
    }
    // (a) every multigraph on n <= 3 nodes, multiplicity 0..2, every output node, both containers
    let mut cases = Vec::new();
    for n in 1..=3usize {
        let pairs: Vec<(usize, usize)> = (0..n).flat_map(|a| (0..n).map(move |b| (a, b))).collect();
        let combos = 3usize.pow(pairs.len() as u32);
        for code in 0..combos {
            let mut edges = Vec::new();
            let mut k = code;
            for &p in &pairs {
                for _ in 0..(k % 3) {
                    edges.push(p);
                }
                k /= 3;
            }
            for out in 0..n {
                cases.push(Case { stable: code % 2 == 0, n, edges: edges.clone(), removed: vec![], added: 0, late_edges: vec![], outputs: vec![out, (out + 1) % n], proc_capacity: code % 4, bufs: if code % 5 == 0 { vec![0, 1, 2] } else { vec![] }, panic_label: if code % 7 == 3 { Some(code % 3) } else { None } });
            }
            // every single removal (stable) followed by one re-added node wired like the removed one's successor
            if n == 3 && code % 3 == 0 {
                for r in 0..n {
                    cases.push(Case { stable: true, n, edges: edges.clone(), removed: vec![r], added: code % 2, late_edges: vec![(3, (r + 1) % 3), ((r + 2) % 3, 3)], outputs: vec![(r + 1) % 3, 0, 1], proc_capacity: 0, bufs: vec![], panic_label: None });
                }
            }
        }
    }
    let n = cases.len() as u64;
    ctx.par_enumerate("all-multigraphs-n<=3", true, n, move |i| cases[i as usize].clone(), check);
    // (b) every digraph with self-loops on 4 nodes x every output node
    let n4: u64 = 1 << 16;
    ctx.par_enumerate(
        "all-digraphs-n=4",
        true,
        n4 * 4,
        |i| {
            let code = i / 4;
            let out = (i % 4) as usize;
            let mut edges = Vec::new();
            for a in 0..4usize {
                for b in 0..4usize {
                    if (code >> (a * 4 + b)) & 1 == 1 {
                        edges.push((a, b));
                    }
                }
            }
            Case { stable: code % 2 == 1, n: 4, edges, removed: if code % 8 == 7 { vec![(code % 4) as usize] } else { vec![] }, added: 0, late_edges: vec![], outputs: vec![out], proc_capacity: 4, bufs: if code % 3 == 0 { vec![1, 0, 2, 1, 0] } else { vec![] }, panic_label: if code % 11 == 5 { Some((code % 4) as usize) } else { None } }
        },
        check,
    );
    if ctx.thorough() {
        let n5: u64 = 1 << 20;
        ctx.par_enumerate(
            "all-loopfree-digraphs-n=5",
            true,
            n5 * 5,
            |i| {
                let code = i / 5;
                let out = (i % 5) as usize;
                let mut edges = Vec::new();
                let mut bit = 0;
                for a in 0..5usize {
                    for b in 0..5usize {
                        if a != b {
                            if (code >> bit) & 1 == 1 {
                                edges.push((a, b));
                            }
                            bit += 1;
                        }
                    }
                }
                Case { stable: code % 2 == 1, n: 5, edges, removed: vec![], added: 0, late_edges: vec![], outputs: vec![out], proc_capacity: 0, bufs: vec![], panic_label: None }
            },
            check,
        );
    }
    ctx.prop("random-graphs", ctx.pick(20_000, 300_000), case_strategy(14), check);
    // (b2) an aborted call on one component, then calls on another: two chains 0 -> .. -> a-1 and a -> .. -> n-1; the call on the end of the
    // first chain blows up in one of its nodes, the following calls render the end of the second chain and then the first again
    let mut cases = Vec::new();
    for a in 1..=4usize {
        for b in 1..=3usize {
            let n = a + b;
            let mut edges: Vec<(usize, usize)> = (1..a).map(|k| (k - 1, k)).collect();
            edges.extend((a + 1..n).map(|k| (k - 1, k)));
            for bomb_at in 0..a {
                for stable in [false, true] {
                    // first real output n-1; the aborted call's output a-1 = (n-1 + d) % n  =>  d = a; panic_label = 8 * d' + r with
                    // (8*d'+r)/8 = d' = a and (8a + r) % n = bomb_at
                    if let Some(r) = (0..8usize).find(|r| (8 * a + r) % n == bomb_at) {
                        cases.push(Case { stable, n, edges: edges.clone(), removed: vec![], added: 0, late_edges: vec![], outputs: vec![n - 1, a - 1, n - 1], proc_capacity: 0, bufs: vec![], panic_label: Some(8 * a + r) });
                    }
                }
            }
        }
    }
    ctx.enumerate("aborted-call-then-another-component", true, cases.into_iter(), check);
    // (b3) a neighbour with 65535 .. 70000 output buffers: the input presented for it refers to all of them
    let mut cases = Vec::new();
    for nb in [65_535usize, 65_536, 65_537, 70_000] {
        for stable in [false, true] {
            cases.push(Case { stable, n: 3, edges: vec![(0, 1), (0, 2), (1, 2)], removed: vec![], added: 0, late_edges: vec![], outputs: vec![2, 1], proc_capacity: 0, bufs: vec![nb, 1, 2], panic_label: None });
        }
    }
    ctx.enumerate("neighbour-with-65536-buffers", true, cases.into_iter(), check);
    // (c) wide fan-in: far more incoming edges (parallel ones included) than nodes or than the processor's capacity hint
    ctx.require_class("in-degree above 16 and above the processor's capacity hint");
    let wide = (2usize..=40, 17usize..=80, 0usize..6, any::<bool>(), proptest::collection::vec(0usize..=3, 0..4)).prop_map(|(n, fan, proc_capacity, stable, bufs)| {
        // node n-1 is the mixer; sources 0..n-1 feed it round-robin (parallel edges once fan > n - 1), plus one self-loop
        let mut edges: Vec<(usize, usize)> = (0..fan).map(|k| (k % (n - 1), n - 1)).collect();
        edges.push((n - 1, n - 1));
        Case { stable, n, edges, removed: vec![], added: 0, late_edges: vec![], outputs: vec![n - 1, n - 1], proc_capacity, bufs, panic_label: None }
    });
    ctx.prop("wide-fan-in", ctx.pick(2_000, 20_000), wide, check);
    // (d) loop-free graphs of the library's own nodes: buffers == functional evaluation, over several calls
    for c in ["graph of stock nodes", "stock graph: a signal node's signal ends during the run", "stock graph: pass node with a different channel count than its input", "stock graph: a node outside the upstream set keeps its buffers"] {
        ctx.require_class(c);
    }
    ctx.prop("stock-node-graphs", ctx.pick(20_000, 200_000), stock_strategy(), check_stock);
}
