//! vp_graph — C09 (graph traversal) and C16 (stock nodes).
pub mod c09;
pub mod c16;
pub mod fuzzdec;
