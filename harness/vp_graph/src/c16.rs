//! C16 — built-in graph nodes compute their documented mixing, routing and delay functions.

use dasp_frame_reg::Frame as RegFrame;
use dasp_graph::node::{Delay, GraphNode, Pass, Sum, SumBuffers};
use dasp_graph::{BoxedNode, BoxedNodeSend, Buffer, Input, Node, NodeData, Processor};
use dasp_ring_buffer_reg as rb;
use dasp_signal_reg::Signal as RegSignal;
use petgraph::graph::{Graph, NodeIndex};
use proptest::prelude::*;
use serde::{Deserialize, Serialize};
use std::cell::Cell;
use std::collections::VecDeque;
use std::marker::PhantomData;
use std::rc::Rc;
use vp_core::{ensure, CheckResult, Ctx, Stats};

const LEN: usize = Buffer::LEN;
const SENTINEL: f32 = 777.0;

#[derive(Clone, Copy, Debug, PartialEq, Eq, Serialize, Deserialize)]
pub enum Kind {
    Sum,
    SumBuffers,
    Pass,
    Delay,
    Signal,
    GraphNode,
}
pub const KINDS: [Kind; 6] = [Kind::Sum, Kind::SumBuffers, Kind::Pass, Kind::Delay, Kind::Signal, Kind::GraphNode];

#[derive(Clone, Copy, Debug, PartialEq, Eq, Serialize, Deserialize)]
pub enum Wrapper {
    Bare,
    MutRef,
    Boxed,
    BoxedNode,
    BoxedNodeSend,
    BoxDynFnMut,
    BoxDynFn,
    FnPointer,
}
pub const WRAPPERS: [Wrapper; 8] = [Wrapper::Bare, Wrapper::MutRef, Wrapper::Boxed, Wrapper::BoxedNode, Wrapper::BoxedNodeSend, Wrapper::BoxDynFnMut, Wrapper::BoxDynFn, Wrapper::FnPointer];

#[derive(Clone, Debug, Serialize, Deserialize)]
pub struct Case {
    pub kind: Kind,
    pub wrapper: Wrapper,
    /// buffers of each input node (its length is the number of inputs)
    pub bufs_in: Vec<usize>,
    pub n_out: usize,
    pub calls: usize,
    /// contents on the grid k/64 (sums exact, order irrelevant) or scaled by an inexact constant
    pub exact: bool,
    /// Delay: ring length per channel
    pub delay_lens: Vec<usize>,
    /// Signal node: channels of the signal's frames
    pub sig_channels: usize,
    /// GraphNode: buffers of every inner input node
    pub inner_bufs: usize,
    pub salt: u32,
    /// Signal node: the signal ends after this many frames (then equilibrium); None = endless
    #[serde(default)]
    pub sig_len: Option<usize>,
    /// GraphNode: shape of the inner graph. 0 = inputs -> Sum (output); 1 = inputs -> Sum -> Pass (output, with one
    /// surplus buffer that keeps its content between calls); 2 = inputs -> Sum (output) <-> Delay (feedback through the output node)
    #[serde(default)]
    pub inner_kind: u8,
    /// every input value is multiplied by 2^scale_exp (exact): quiet signals, down to the subnormal range on the grid
    #[serde(default)]
    pub scale_exp: i16,
    /// the node under test also has an edge onto itself (never presented as an input): 0 = none, 1 = added before the
    /// input edges, 2 = added after them
    #[serde(default)]
    pub self_loop: u8,
    /// inputs are silent except for one impulse every 193 samples (so whole blocks are exactly silent)
    #[serde(default)]
    pub sparse: bool,
    /// the last entry of `bufs_in` is not a node of its own: it is input 0 again, connected by a second (parallel) edge
    #[serde(default)]
    pub dup_last: bool,
    /// GraphNode without outer inputs: the inner graph nevertheless designates this many input nodes (nothing is connected
    /// to them) and has a generator of its own feeding the sum
    #[serde(default)]
    pub orphan_inputs: u8,
}

/// 2^e as f32, e in -149..=127
fn pow2(e: i16) -> f32 {
    if e >= -126 {
        f32::from_bits(((e as i32 + 127) as u32) << 23)
    } else {
        f32::from_bits(1u32 << (e as i32 + 149))
    }
}

/// contents of buffer `b` of input node `node` in call `call`
fn val(c: &Case, node: usize, b: usize, i: usize, call: usize) -> f32 {
    let node = if c.dup_last && node + 1 == c.bufs_in.len() { 0 } else { node };
    if c.sparse && (call * LEN + i + node * 5 + b * 3) % 193 != c.salt as usize % 193 {
        // silence comes with either sign: a copy must deliver the sign it was given
        return if (call + node + b + i) % 3 == 0 { -0.0 } else { 0.0 };
    }
    let k = ((node * 31 + b * 17 + i * 7 + call * 13 + c.salt as usize) % 257) as i32 - 128;
    let k = if c.sparse && k == 0 { 64 } else { k };
    let v = k as f32 / 64.0;
    if c.exact {
        // k x 2^(e-6) is representable down to e = -143
        v * pow2(c.scale_exp.clamp(-143, 20))
    } else {
        // relative tolerances need normal numbers
        v * 0.123_456_7 * pow2(c.scale_exp.clamp(-100, 20))
    }
}

struct ConstWriter {
    node: usize,
    call: usize,
    case: Rc<Case>,
}
impl Node for ConstWriter {
    fn process(&mut self, _inputs: &[Input], output: &mut [Buffer]) {
        for (b, buf) in output.iter_mut().enumerate() {
            for i in 0..LEN {
                buf[i] = val(&self.case, self.node, b, i, self.call);
            }
        }
        self.call += 1;
    }
}

enum TNode<X> {
    Const(ConstWriter),
    Test(X),
}
impl<X: Node> Node for TNode<X> {
    fn process(&mut self, inputs: &[Input], output: &mut [Buffer]) {
        match self {
            TNode::Const(c) => c.process(inputs, output),
            TNode::Test(x) => x.process(inputs, output),
        }
    }
}

fn sentinel_buffers(n: usize) -> Vec<Buffer> {
    (0..n).map(|b| Buffer::from([SENTINEL + b as f32; LEN])).collect()
}

/// run the node under test inside a real graph; returns its output buffers after every call
fn run_in_graph<X: Node>(x: X, c: &Rc<Case>) -> Vec<Vec<Vec<f32>>> {
    let mut g: Graph<NodeData<TNode<X>>, ()> = Graph::with_capacity(0, 0);
    let test = g.add_node(NodeData::new(TNode::Test(x), sentinel_buffers(c.n_out)));
    if c.self_loop % 3 == 1 {
        g.add_edge(test, test, ());
    }
    let mut first = None;
    for (j, &nb) in c.bufs_in.iter().enumerate() {
        if c.dup_last && j > 0 && j + 1 == c.bufs_in.len() {
            // the same source patched in twice
            g.add_edge(first.unwrap(), test, ());
            continue;
        }
        let n = g.add_node(NodeData::new(TNode::Const(ConstWriter { node: j, call: 0, case: c.clone() }), vec![Buffer::SILENT; nb]));
        first.get_or_insert(n);
        g.add_edge(n, test, ());
    }
    if c.self_loop % 3 == 2 {
        g.add_edge(test, test, ());
    }
    let mut p = Processor::with_capacity(c.bufs_in.len() + 1);
    let mut outs = Vec::new();
    for _ in 0..c.calls {
        p.process(&mut g, test);
        outs.push(g[test].buffers.iter().map(|b| b.to_vec()).collect());
    }
    outs
}

fn sum_fn(i: &[Input], o: &mut [Buffer]) {
    Sum.process(i, o)
}
fn sum_buffers_fn(i: &[Input], o: &mut [Buffer]) {
    SumBuffers.process(i, o)
}
fn pass_fn(i: &[Input], o: &mut [Buffer]) {
    Pass.process(i, o)
}

/// the same stateless node through every wrapper type
fn run_stateless<X: Node + Clone + Send + 'static>(x: X, f: fn(&[Input], &mut [Buffer]), w: Wrapper, c: &Rc<Case>) -> Vec<Vec<Vec<f32>>> {
    match w {
        Wrapper::Bare => run_in_graph(x, c),
        Wrapper::MutRef => {
            let mut y = x;
            run_in_graph(&mut y, c)
        }
        Wrapper::Boxed => run_in_graph(Box::new(x), c),
        Wrapper::BoxedNode => run_in_graph(BoxedNode::new(x), c),
        Wrapper::BoxedNodeSend => run_in_graph(BoxedNodeSend::new(x), c),
        Wrapper::BoxDynFnMut => {
            let mut y = x;
            let b: Box<dyn FnMut(&[Input], &mut [Buffer])> = Box::new(move |i, o| y.process(i, o));
            run_in_graph(b, c)
        }
        Wrapper::BoxDynFn => {
            let b: Box<dyn Fn(&[Input], &mut [Buffer])> = Box::new(move |i, o| f(i, o));
            run_in_graph(b, c)
        }
        Wrapper::FnPointer => run_in_graph(f, c),
    }
}

fn mk_delay(c: &Case) -> Delay<Vec<f32>> {
    Delay(c.delay_lens.iter().map(|&l| rb::Fixed::from(vec![0.0f32; l.max(1)])).collect())
}

fn sig_frame<const C: usize>(k: usize, salt: u32) -> [f32; C] {
    core::array::from_fn(|ch| ((k * 3 + ch * 1000 + salt as usize) % 100_003) as f32)
}

fn run_signal<const C: usize>(c: &Rc<Case>, w: Wrapper, pulled: Rc<Cell<usize>>) -> Vec<Vec<Vec<f32>>>
where
    [f32; C]: RegFrame<Sample = f32>,
{
    let salt = c.salt;
    let p2 = pulled.clone();
    let boxed: Box<dyn RegSignal<Frame = [f32; C]>> = match c.sig_len {
        None => Box::new(dasp_signal_reg::gen_mut(move || {
            let k = p2.get();
            p2.set(k + 1);
            sig_frame::<C>(k, salt)
        })),
        // a finite signal: its frames, then equilibrium for ever (it reports exhaustion, the node must keep writing)
        Some(l) => {
            let frames: Vec<[f32; C]> = (0..l).map(|k| sig_frame::<C>(k, salt)).collect();
            p2.set(usize::MAX);
            Box::new(dasp_signal_reg::from_iter(frames))
        }
    };
    match w {
        Wrapper::BoxedNode => run_in_graph(BoxedNode::new(boxed), c),
        Wrapper::MutRef => {
            let mut b = boxed;
            run_in_graph(&mut b, c)
        }
        _ => run_in_graph(boxed, c),
    }
}

type Inner = Graph<NodeData<BoxedNode>, ()>;

fn mk_inner(c: &Case) -> (Inner, Vec<NodeIndex>, NodeIndex) {
    let mut g: Inner = Graph::with_capacity(0, 0);
    let sum = g.add_node(NodeData::boxed(Sum, vec![Buffer::SILENT; c.inner_bufs]));
    let mut ins = Vec::new();
    for _ in 0..c.bufs_in.len() + c.orphan_inputs as usize {
        let n = g.add_node(NodeData::boxed(Pass, vec![Buffer::SILENT; c.inner_bufs]));
        g.add_edge(n, sum, ());
        ins.push(n);
    }
    if c.orphan_inputs > 0 {
        let mut k = 0usize;
        let salt = c.salt as usize;
        let gen: Box<dyn FnMut(&[Input], &mut [Buffer])> = Box::new(move |_i, o| {
            for (b, buf) in o.iter_mut().enumerate() {
                for (i, x) in buf.iter_mut().enumerate() {
                    *x = ((k * 7 + i * 3 + b + salt) % 17) as f32 / 16.0 - 0.5;
                }
            }
            k += 1;
        });
        let n = g.add_node(NodeData::boxed(gen, vec![Buffer::SILENT; c.inner_bufs]));
        g.add_edge(n, sum, ());
    }
    let out = match c.inner_kind % 3 {
        0 => sum,
        1 => {
            // the output node does not rewrite all of its buffers: a Pass with one surplus buffer
            let p = g.add_node(NodeData::boxed(Pass, vec![Buffer::SILENT; c.inner_bufs + 1]));
            g.add_edge(sum, p, ());
            p
        }
        _ => {
            // feedback through the output node: its buffers carry state into the next call
            let d = g.add_node(NodeData::boxed(Delay(vec![rb::Fixed::from(vec![0.0f32; 37]); c.inner_bufs.max(1)]), vec![Buffer::SILENT; c.inner_bufs]));
            g.add_edge(sum, d, ());
            g.add_edge(d, sum, ());
            sum
        }
    };
    (g, ins, out)
}

fn f32s_eq(a: &[f32], b: &[f32]) -> bool {
    a.len() == b.len() && a.iter().zip(b).all(|(x, y)| x.to_bits() == y.to_bits() || x == y)
}

pub fn check(c0: &Case, st: &mut Stats) -> CheckResult {
    let c = Rc::new(c0.clone());
    ensure!(c.calls >= 1 && c.bufs_in.len() <= 8 && c.n_out <= 6, "bad case");
    ensure!(!c.dup_last || (c.bufs_in.len() >= 2 && c.bufs_in[0] == c.bufs_in[c.bufs_in.len() - 1] && c.kind != Kind::GraphNode), "bad case: parallel edge needs two equal entries");
    st.class_if(c.dup_last, "the same source connected by two parallel edges");
    ensure!(c.orphan_inputs == 0 || (c.kind == Kind::GraphNode && c.bufs_in.is_empty()), "bad case: orphan inputs are for a nested graph without outer inputs");
    st.class_if(c.orphan_inputs > 0, "nested graph with designated input nodes that nothing is connected to");
    let n_in = c.bufs_in.len();
    let mismatched = c.bufs_in.iter().any(|&b| b != c.n_out);
    let stateful = matches!(c.kind, Kind::Delay | Kind::Signal);
    st.nt(mismatched || n_in == 0 || (stateful && c.calls >= 2) || c.wrapper != Wrapper::Bare);
    st.class_if(mismatched, "mismatched channel counts");
    st.class_if(n_in == 0, "zero inputs");
    st.class_if(stateful && c.calls >= 2, "consecutive calls on a stateful node");
    st.class_if(c.wrapper != Wrapper::Bare, "wrapper");
    st.class_if(c.scale_exp <= -24 && c.kind != Kind::Signal, "input level below 2^-24");
    st.class_if(c.self_loop % 3 != 0 && n_in > 0, "node with inputs and an edge onto itself");
    st.class_if(c.sparse && c.kind == Kind::Delay && c.calls >= 3, "delay fed impulses separated by silent blocks");
    st.class_if(c.kind == Kind::Signal && c.sig_len.map_or(false, |l| l < c.calls * LEN), "signal node over a signal that ends during the run");
    st.class_if(c.kind == Kind::GraphNode && c.inner_kind % 3 != 0, "nested graph whose output node carries state between calls");
    let sentinel = |b: usize| vec![SENTINEL + b as f32; LEN];
    let tol_for = |terms: &[f32]| -> f32 {
        if c.exact {
            0.0
        } else {
            terms.len() as f32 * f32::EPSILON * terms.iter().map(|x| x.abs()).sum::<f32>() + f32::MIN_POSITIVE
        }
    };
    let close = |got: f32, terms: &[f32]| -> bool {
        let exp: f32 = terms.iter().sum();
        (got - exp).abs() <= tol_for(terms)
    };
    // the wrapped variant and (for wrappers) the bare variant
    let outs: Vec<Vec<Vec<f32>>>;
    let mut bare: Option<Vec<Vec<Vec<f32>>>> = None;
    let pulled = Rc::new(Cell::new(0usize));
    match c.kind {
        Kind::Sum => {
            outs = run_stateless(Sum, sum_fn, c.wrapper, &c);
            if c.wrapper != Wrapper::Bare {
                bare = Some(run_in_graph(Sum, &c));
            }
        }
        Kind::SumBuffers => {
            outs = run_stateless(SumBuffers, sum_buffers_fn, c.wrapper, &c);
            if c.wrapper != Wrapper::Bare {
                bare = Some(run_in_graph(SumBuffers, &c));
            }
        }
        Kind::Pass => {
            outs = run_stateless(Pass, pass_fn, c.wrapper, &c);
            if c.wrapper != Wrapper::Bare {
                bare = Some(run_in_graph(Pass, &c));
            }
        }
        Kind::Delay => {
            ensure!(n_in <= 1, "bad case: the delay node's contract is about a single input");
            outs = match c.wrapper {
                Wrapper::Bare | Wrapper::BoxDynFn | Wrapper::FnPointer => run_in_graph(mk_delay(&c), &c),
                Wrapper::MutRef => {
                    let mut d = mk_delay(&c);
                    run_in_graph(&mut d, &c)
                }
                Wrapper::Boxed => run_in_graph(Box::new(mk_delay(&c)), &c),
                Wrapper::BoxedNode => run_in_graph(BoxedNode::new(mk_delay(&c)), &c),
                Wrapper::BoxedNodeSend => run_in_graph(BoxedNodeSend::new(mk_delay(&c)), &c),
                Wrapper::BoxDynFnMut => {
                    let mut d = mk_delay(&c);
                    let b: Box<dyn FnMut(&[Input], &mut [Buffer])> = Box::new(move |i, o| d.process(i, o));
                    run_in_graph(b, &c)
                }
            };
            bare = Some(run_in_graph(mk_delay(&c), &c));
        }
        Kind::Signal => {
            let w = c.wrapper;
            outs = match c.sig_channels {
                1 => run_signal::<1>(&c, w, pulled.clone()),
                2 => run_signal::<2>(&c, w, pulled.clone()),
                3 => run_signal::<3>(&c, w, pulled.clone()),
                4 => run_signal::<4>(&c, w, pulled.clone()),
                _ => return Err("bad case: signal channels 1..=4".into()),
            };
        }
        Kind::GraphNode => {
            ensure!(c.bufs_in.iter().all(|&b| b == c.bufs_in[0]), "bad case: graph-node inputs must be symmetric");
            let (g, ins, out) = mk_inner(&c);
            let gn = GraphNode { processor: Processor::with_capacity(n_in + 1), graph: g, input_nodes: ins, output_node: out, node_type: PhantomData::<BoxedNode> };
            outs = match c.wrapper {
                Wrapper::BoxedNode => run_in_graph(BoxedNode::new(gn), &c),
                Wrapper::Boxed => run_in_graph(Box::new(gn), &c),
                _ => run_in_graph(gn, &c),
            };
        }
    }
    if let Some(b) = &bare {
        for call in 0..c.calls {
            for ch in 0..c.n_out {
                ensure!(f32s_eq(&outs[call][ch], &b[call][ch]), "{:?} through {:?}: call {} output buffer {} differs from the bare node's", c.kind, c.wrapper, call, ch);
            }
        }
    }
    // per-kind expected values
    let in_val = |j: usize, b: usize, i: usize, call: usize| val(&c, j, b, i, call);
    if c.kind == Kind::Pass && n_in >= 2 {
        // "copies the buffers of a single input": which input counts as the first is the graph's business, but it must be
        // ONE input, the same in every call, copied channel for channel, with the outputs beyond its channel count untouched
        let consistent = |j: usize| -> bool {
            (0..c.calls).all(|call| {
                (0..c.n_out).all(|ch| {
                    let got = &outs[call][ch];
                    if ch < c.bufs_in[j] {
                        (0..LEN).all(|i| got[i].to_bits() == in_val(j, ch, i, call).to_bits())
                    } else {
                        f32s_eq(got, &sentinel(ch))
                    }
                })
            })
        };
        ensure!((0..n_in).any(consistent), "Pass with {} inputs of {:?} buffers and {} outputs: the outputs are not the channel-for-channel copy of any single input with the remaining outputs left untouched", n_in, c.bufs_in, c.n_out);
        st.class("pass node with several inputs");
    }
    let mut fifo: Vec<VecDeque<f32>> = c.delay_lens.iter().map(|&l| std::iter::repeat(0.0).take(l.max(1)).collect()).collect();
    // direct reference for the nested graph
    let mut direct = if c.kind == Kind::GraphNode { Some((mk_inner(&c), Processor::<Inner>::with_capacity(n_in + 1))) } else { None };
    for call in 0..c.calls {
        for ch in 0..c.n_out {
            let got = &outs[call][ch];
            match c.kind {
                Kind::Sum => {
                    for i in 0..LEN {
                        let terms: Vec<f32> = (0..n_in).filter(|&j| ch < c.bufs_in[j]).map(|j| in_val(j, ch, i, call)).collect();
                        ensure!(close(got[i], &terms), "Sum: call {} output channel {} sample {} = {}, sum over the inputs that have that channel = {} ({:?})", call, ch, i, got[i], terms.iter().sum::<f32>(), terms);
                    }
                }
                Kind::SumBuffers => {
                    for i in 0..LEN {
                        let terms: Vec<f32> = (0..n_in).flat_map(|j| (0..c.bufs_in[j]).map(move |b| (j, b))).map(|(j, b)| in_val(j, b, i, call)).collect();
                        ensure!(close(got[i], &terms), "SumBuffers: call {} output buffer {} sample {} = {}, sum of all buffers of all inputs = {}", call, ch, i, got[i], terms.iter().sum::<f32>());
                    }
                }
                Kind::Pass if n_in >= 2 => {} // several inputs: checked once per run below
                Kind::Pass => {
                    if n_in == 1 && ch < c.bufs_in[0] {
                        for i in 0..LEN {
                            ensure!(got[i].to_bits() == in_val(0, ch, i, call).to_bits(), "Pass: call {} output {} sample {} = {:?}, input sample {:?} (compared bit for bit)", call, ch, i, got[i], in_val(0, ch, i, call));
                        }
                    } else {
                        ensure!(f32s_eq(got, &sentinel(ch)), "Pass: call {}: surplus output buffer {} was modified", call, ch);
                    }
                }
                Kind::Delay => {
                    let active = n_in == 1 && ch < c.bufs_in[0] && ch < c.delay_lens.len();
                    if active {
                        for i in 0..LEN {
                            fifo[ch].push_back(in_val(0, ch, i, call));
                            let exp = fifo[ch].pop_front().unwrap();
                            ensure!(got[i].to_bits() == exp.to_bits(), "Delay: call {} channel {} sample {} = {:?}, the input {} samples earlier was {:?} (compared bit for bit)", call, ch, i, got[i], c.delay_lens[ch].max(1), exp);
                        }
                    } else {
                        ensure!(f32s_eq(got, &sentinel(ch)), "Delay: call {}: output buffer {} without a matching input channel / ring was modified", call, ch);
                    }
                }
                Kind::Signal => {
                    if ch < c.sig_channels {
                        for i in 0..LEN {
                            let k = call * LEN + i;
                            let exp = if c.sig_len.map_or(false, |l| k >= l) { 0.0 } else { ((k * 3 + ch * 1000 + c.salt as usize) % 100_003) as f32 };
                            ensure!(got[i] == exp, "signal node: call {} channel {} sample {} = {}, frame {} channel {} = {}", call, ch, i, got[i], k, ch, exp);
                        }
                    } else {
                        ensure!(f32s_eq(got, &sentinel(ch)), "signal node: call {}: surplus output buffer {} was modified", call, ch);
                    }
                }
                Kind::GraphNode => {}
            }
        }
        if c.kind == Kind::Signal && c.sig_len.is_none() {
            ensure!(pulled.get() == (call + 1) * LEN || call + 1 < c.calls, "signal node consumed {} frames in {} calls (one buffer length per call)", pulled.get(), c.calls);
        }
        if let Some(((g, ins, out), p)) = direct.as_mut() {
            // process the same inner graph directly: copy the outer inputs into the designated input nodes
            for (j, &n) in ins.iter().enumerate().take(n_in) {
                for b in 0..c.inner_bufs.min(c.bufs_in[j]) {
                    for i in 0..LEN {
                        g[n].buffers[b][i] = in_val(j, b, i, call);
                    }
                }
            }
            p.process(g, *out);
            for ch in 0..c.n_out {
                let got = &outs[call][ch];
                if ch < g[*out].buffers.len() {
                    let exp = g[*out].buffers[ch].to_vec();
                    if c.exact {
                        ensure!(f32s_eq(got, &exp), "GraphNode: call {} output {} differs from processing the inner graph directly", call, ch);
                    } else {
                        for i in 0..LEN {
                            let terms: Vec<f32> = (0..n_in).filter(|&j| ch < c.bufs_in[j].min(c.inner_bufs)).map(|j| in_val(j, ch, i, call)).collect();
                            // feedback accumulates: allow the rounding of every call so far
                            ensure!((got[i] - exp[i]).abs() <= 2.0 * (call as f32 + 1.0) * tol_for(&terms) + 1e-4 * (c.inner_kind % 3 == 2) as u8 as f32 * exp[i].abs(), "GraphNode: call {} output {} sample {} = {}, direct processing gives {}", call, ch, i, got[i], exp[i]);
                        }
                    }
                } else {
                    ensure!(f32s_eq(got, &sentinel(ch)), "GraphNode: call {}: surplus output buffer {} was modified", call, ch);
                }
            }
        }
    }
    Ok(())
}

pub fn case_strategy() -> impl Strategy<Value = Case> {
    (0usize..6, 0usize..8, any::<bool>(), 1usize..=6, 0usize..=4, any::<u32>()).prop_flat_map(|(k, w, exact, calls, n_out, salt)| {
        let kind = KINDS[k];
        let max_in = match kind {
            Kind::Pass => 3usize,
            Kind::Delay => 1usize,
            Kind::Signal => 0,
            _ => 6,
        };
        (
            proptest::collection::vec(0usize..=4, 0..=max_in),
            proptest::collection::vec(prop_oneof![3 => 1usize..=200, 1 => proptest::sample::select(vec![1usize, 63, 64, 65, 128])], 0..=4),
            1usize..=4,
            0usize..=4,
            prop_oneof![2 => Just(None), 1 => (0usize..300).prop_map(Some)],
            0u8..3,
            prop_oneof![3 => Just(0i16), 1 => proptest::sample::select(vec![-24i16, -30, -60, -100, -140]), 1 => -143i16..=0],
            prop_oneof![2 => Just(0u8), 1 => 1u8..=2],
            prop_oneof![3 => Just(false), 1 => Just(true)],
            prop_oneof![3 => Just(false), 1 => Just(true)],
        )
            .prop_map(move |(mut bufs_in, delay_lens, sig_channels, inner_bufs, sig_len, inner_kind, scale_exp, self_loop, sparse, dup)| {
                if kind == Kind::GraphNode {
                    let b0 = bufs_in.first().copied().unwrap_or(0);
                    for b in bufs_in.iter_mut() {
                        *b = b0;
                    }
                }
                let dup_last = dup && bufs_in.len() >= 2 && kind != Kind::GraphNode && kind != Kind::Signal && kind != Kind::Delay;
                if dup_last {
                    let l = bufs_in.len();
                    bufs_in[l - 1] = bufs_in[0];
                }
                let orphan_inputs = if kind == Kind::GraphNode && bufs_in.is_empty() { (salt % 3) as u8 } else { 0 };
                Case { kind, wrapper: WRAPPERS[w], bufs_in, n_out, calls, exact, delay_lens, sig_channels, inner_bufs, salt: salt % 10_000, sig_len, inner_kind, scale_exp, self_loop, sparse, dup_last, orphan_inputs }
            })
    })
}

pub fn run(ctx: &mut Ctx) {
    ctx.set_rule(
        "cases are (node kind out of Sum, SumBuffers, Pass, Delay, signal node, GraphNode; wrapper out of bare, &mut, Box, BoxedNode, BoxedNodeSend, Box<dyn FnMut>, Box<dyn Fn>, fn pointer; 0..6 inputs (Delay 0 or 1, Pass 0..3) with 0..4 buffers each, \
         0..4 output buffers (mismatched on purpose), 1..6 consecutive process calls with fresh input contents, exact (grid k/64) or inexact contents, scaled by 2^e with e down to -143 (quiet and subnormal signals), Delay ring lengths 1..200 per channel, signal frames of 1..4 channels, inner graph shape); \
         inputs are supplied by constant-writer source nodes in a real graph (dense contents, or impulses 193 samples apart with silent blocks between them); the node under test may also carry an edge onto itself; non-trivial: mismatched channel counts, zero inputs, >= 2 consecutive calls on a stateful node, or a wrapper",
    );
    ctx.assume("Sum / SumBuffers compared with the exact sum on grid contents (input order irrelevant) and within n eps sum|x| otherwise; surplus outputs are pre-filled with a sentinel pattern and must stay untouched where the documentation says so; wrappers must be bit-identical to the bare node; dasp_graph is built against the crates.io 0.11.0 dasp_ring_buffer / dasp_signal / dasp_frame exactly as the repository's lock file resolves them");
    for c in ["mismatched channel counts", "zero inputs", "consecutive calls on a stateful node", "wrapper", "input level below 2^-24", "node with inputs and an edge onto itself", "delay fed impulses separated by silent blocks", "pass node with several inputs", "signal node over a signal that ends during the run", "nested graph whose output node carries state between calls"] {
        ctx.require_class(c);
    }
    ctx.require_class("the same source connected by two parallel edges");
    ctx.require_class("nested graph with designated input nodes that nothing is connected to");
    ctx.prop("random-configurations", ctx.pick(40_000, 400_000), case_strategy(), check);
    // every kind x every wrapper x a few channel layouts
    let mut cases = Vec::new();
    for &kind in &KINDS {
        for &wrapper in &WRAPPERS {
            for (bufs_in, n_out) in [(vec![], 2usize), (vec![2], 2), (vec![1], 3), (vec![3], 1), (vec![2, 2, 2], 2), (vec![0, 3, 1], 2)] {
                if matches!(kind, Kind::Delay) && bufs_in.len() > 1 {
                    continue;
                }
                if kind == Kind::Signal && !bufs_in.is_empty() {
                    continue;
                }
                if kind == Kind::GraphNode && bufs_in.iter().any(|&b| b != bufs_in[0]) {
                    continue;
                }
                for (exact, scale_exp) in [(true, 0i16), (false, 0), (true, -30), (true, -140), (false, -40)] {
                    for variant in 0..3u8 {
                        if variant > 0 && !matches!(kind, Kind::Signal | Kind::GraphNode) {
                            continue;
                        }
                        cases.push(Case { kind, wrapper, bufs_in: bufs_in.clone(), n_out, calls: 4, exact, delay_lens: vec![64, 5, 100], sig_channels: 2, inner_bufs: 2, salt: 7,
                            sig_len: [None, Some(100), Some(64)][variant as usize], inner_kind: variant, scale_exp, self_loop: (scale_exp.unsigned_abs() / 10 % 3) as u8, sparse: scale_exp == -30, dup_last: bufs_in == vec![2, 2, 2] && !exact && !matches!(kind, Kind::GraphNode | Kind::Signal | Kind::Delay), orphan_inputs: if kind == Kind::GraphNode && bufs_in.is_empty() { 1 + (variant % 2) } else { 0 } });
                    }
                }
            }
        }
    }
    ctx.enumerate("catalogue-kind-x-wrapper", true, cases.into_iter(), check);
}
