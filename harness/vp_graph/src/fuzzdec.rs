//! Byte -> case decoders for the libFuzzer `graph` target.
use crate::{c09, c16};
use arbitrary::Unstructured;

fn idx(u: &mut Unstructured, n: usize) -> usize {
    if n <= 1 {
        return 0;
    }
    u.int_in_range(0..=(n - 1)).unwrap_or(0)
}

pub fn graph(data: &[u8]) -> c09::Case {
    let mut u = Unstructured::new(data);
    let n = 1 + idx(&mut u, 14);
    let stable = idx(&mut u, 2) == 0;
    let n_removed = if stable { idx(&mut u, n / 2 + 1) } else { 0 };
    let removed = (0..n_removed).map(|_| idx(&mut u, n)).collect();
    let added = if stable { idx(&mut u, 3) } else { 0 };
    let proc_capacity = idx(&mut u, n + 2);
    let n_out = 1 + idx(&mut u, 4);
    let outputs = (0..n_out).map(|_| idx(&mut u, 64)).collect();
    let n_late = idx(&mut u, 6);
    let late_edges = (0..n_late).map(|_| (idx(&mut u, n + 3), idx(&mut u, n + 3))).collect();
    let nb = idx(&mut u, 4);
    let bufs: Vec<usize> = (0..nb).map(|_| idx(&mut u, 3)).collect();
    let mut edges = Vec::new();
    while !u.is_empty() && edges.len() < 60 {
        edges.push((idx(&mut u, n), idx(&mut u, n)));
    }
    c09::Case { stable, n, edges, removed, added, late_edges, outputs, proc_capacity, bufs, panic_label: data.last().filter(|b| **b % 5 == 0).map(|b| *b as usize) }
}

pub fn node(data: &[u8]) -> c16::Case {
    let mut u = Unstructured::new(data);
    let kind = c16::KINDS[idx(&mut u, 6)];
    let wrapper = c16::WRAPPERS[idx(&mut u, 8)];
    let max_in = match kind {
        c16::Kind::Pass | c16::Kind::Delay => 1,
        c16::Kind::Signal => 0,
        _ => 6,
    };
    let n_in = idx(&mut u, max_in + 1);
    let mut bufs_in: Vec<usize> = (0..n_in).map(|_| idx(&mut u, 5)).collect();
    if kind == c16::Kind::GraphNode {
        let b0 = bufs_in.first().copied().unwrap_or(0);
        bufs_in.iter_mut().for_each(|b| *b = b0);
    }
    let n_out = idx(&mut u, 5);
    let calls = 1 + idx(&mut u, 6);
    let exact = idx(&mut u, 2) == 0;
    let n_del = idx(&mut u, 5);
    let delay_lens = (0..n_del).map(|_| 1 + idx(&mut u, 200)).collect();
    c16::Case { kind, wrapper, bufs_in, n_out, calls, exact, delay_lens, sig_channels: 1 + idx(&mut u, 4), inner_bufs: idx(&mut u, 5), salt: idx(&mut u, 10_000) as u32, sig_len: if idx(&mut u, 3) == 0 { Some(idx(&mut u, 300)) } else { None }, inner_kind: idx(&mut u, 3) as u8, scale_exp: [0i16, 0, 0, -30, -100, -140][data.last().map_or(0, |b| *b as usize % 6)], self_loop: (data.len() % 3) as u8, sparse: data.len() % 4 == 0, dup_last: false, orphan_inputs: 0 }
}
