//! C01 — integer<->integer conversion is exact power-of-two amplitude rescaling.

use crate::table::{conv3, dyn_conv, Pair};
use proptest::prelude::*;
use rayon::prelude::*;
use serde::{Deserialize, Serialize};
use vp_core::fmt::{boundary_raws, conv_int_int, Fmt, IntFmt, Kind, Val, INT_KINDS};
use vp_core::{ensure, json, Bulk, CheckResult, Ctx, Stats, Value};
#[allow(unused_imports)]
use dasp_sample::{I24, I48, U24, U48};

#[derive(Clone, Debug, Serialize, Deserialize)]
pub struct PairCase {
    pub src: Kind,
    pub dst: Kind,
    pub raw: i128,
}

#[derive(Clone, Debug, Serialize, Deserialize)]
pub struct TripleCase {
    pub a: Kind,
    pub m: Kind,
    pub b: Kind,
    pub raw: i128,
}

/// the format's `Sample::EQUILIBRIUM` constant: the mid-point of the range, and mapped onto every other format's constant
#[derive(Clone, Debug, Serialize, Deserialize)]
pub struct EqCase {
    pub kind: Kind,
}

pub fn check_equilibrium(c: &EqCase, st: &mut Stats) -> CheckResult {
    st.nt(true);
    macro_rules! one {
        ($A:ty) => {
            if c.kind == <$A as Fmt>::KIND {
                let e = <$A as dasp_sample::Sample>::EQUILIBRIUM.to_val();
                ensure!(e == Val::I(c.kind.eq_raw()), "{}::EQUILIBRIUM = {:?}, the amplitude-0 value of the format is {}", c.kind.name(), e, c.kind.eq_raw());
                for &d in &INT_KINDS {
                    let got = dyn_conv(c.kind, e, d)?;
                    ensure!(got == Val::I(d.eq_raw()), "{}::EQUILIBRIUM converted to {} gives {:?}, that format's equilibrium is {}", c.kind.name(), d.name(), got, d.eq_raw());
                }
                return Ok(());
            }
        };
    }
    vp_core::for_int_formats!(one);
    Err("bad case: unknown format".into())
}

fn splitmix(mut x: u64) -> u64 {
    x = x.wrapping_add(0x9e37_79b9_7f4a_7c15);
    let mut z = x;
    z = (z ^ (z >> 30)).wrapping_mul(0xbf58_476d_1ce4_e5b9);
    z = (z ^ (z >> 27)).wrapping_mul(0x94d0_49bb_1331_11eb);
    z ^ (z >> 31)
}

/// the statement, verbatim, through the dynamic path (used by replay, boundaries, proptest)
pub fn check_pair_dyn(c: &PairCase, st: &mut Stats) -> CheckResult {
    ensure!(c.src.in_range_raw(c.raw), "case raw out of range (bad case)");
    let got = dyn_conv(c.src, Val::I(c.raw), c.dst)?;
    let exp = conv_int_int(c.src, c.raw, c.dst);
    ensure!(c.dst.in_range_raw(exp), "oracle produced out-of-range value (harness bug)");
    st.nt(c.raw != c.src.min_raw() && c.raw != c.src.max_raw() && c.raw != c.src.eq_raw());
    st.class_if(c.dst.bits() < c.src.bits(), "narrowing");
    st.class_if(c.dst.bits() > c.src.bits(), "widening");
    st.class_if(c.dst.bits() == c.src.bits(), "same-width sign change");
    match got {
        Val::I(r) => {
            ensure!(
                r == exp,
                "{}->{} of raw {} (amplitude {}): got {}, expected floor(amp*2^({}-{}))+offset = {}",
                c.src.name(), c.dst.name(), c.raw, c.raw - c.src.offset(), r, c.dst.bits(), c.src.bits(), exp
            );
            Ok(())
        }
        other => Err(format!("non-integer result {:?}", other)),
    }
}

#[inline(always)]
fn check_typed<A: Pair<B> + IntFmt, B: IntFmt>(raw: i128) -> Result<(), String> {
    let a = A::from_raw(raw);
    let b = match conv3::<A, B>(a) {
        Ok(b) => b,
        Err(e) => return Err(e),
    };
    // fast path: the statement evaluated modulo 2^64 (injective on every format's raw range)
    let amp = (raw as u64).wrapping_sub(A::KIND.offset() as u64) as i64;
    let sh = B::BITS as i32 - A::BITS as i32;
    let shifted = if sh >= 0 { amp.wrapping_shl(sh as u32) } else { amp >> (-sh) as u32 };
    let exp64 = (shifted as u64).wrapping_add(B::KIND.offset() as u64);
    if b.raw() as u64 != exp64 {
        let exp = conv_int_int(A::KIND, raw, B::KIND);
        return Err(format!(
            "{}->{} of raw {}: got {}, expected {}",
            A::name(), B::name(), raw, b.raw(), exp
        ));
    }
    Ok(())
}

fn pair_json<A: Fmt, B: Fmt>(raw: i128) -> Value {
    serde_json::to_value(PairCase { src: A::KIND, dst: B::KIND, raw }).unwrap()
}

/// every value of a <= 32-bit source format
fn exhaust_pair<A: Pair<B> + IntFmt, B: IntFmt>() -> Bulk {
    let n: u64 = 1u64 << A::BITS;
    let chunk: u64 = n.min(1 << 16);
    let lo = A::KIND.min_raw();
    let hi = A::KIND.max_raw();
    let eq = A::KIND.eq_raw();
    (0..n / chunk)
        .into_par_iter()
        .map(|c| {
            vp_core::pan::two_pass(|slow| {
                let mut b = Bulk::default();
                for i in c * chunk..(c + 1) * chunk {
                    let raw = lo + i as i128;
                    if let Err(m) = vp_core::guard!(slow, check_typed::<A, B>(raw), |p| p) {
                        b.set_fail(pair_json::<A, B>(raw), m);
                        break;
                    }
                    b.evals += 1;
                    b.nontrivial += (raw != lo && raw != hi && raw != eq) as u64;
                }
                b
            })
        })
        .reduce(Bulk::default, Bulk::merge)
}

/// low-part patterns for the (top 24 bits exhaustive) x (low part) product of wide sources
fn low_patterns(low_bits: u32, thorough: bool) -> Vec<u64> {
    let mask = if low_bits == 64 { u64::MAX } else { (1u64 << low_bits) - 1 };
    let mut v = vec![0u64, mask];
    if thorough {
        v.push(1);
        v.push(mask - 1);
        for k in 1..low_bits {
            v.push(1u64 << k);
            v.push((1u64 << k) - 1);
            v.push(mask ^ ((1u64 << k) - 1));
        }
        v.sort();
        v.dedup();
    }
    v
}

/// top 24 bits exhaustive x (fixed low patterns + `nrand` seed-derived random low parts)
fn structured_pair<A: Pair<B> + IntFmt, B: IntFmt>(seed: u64, thorough: bool, nrand: u64) -> Bulk {
    let bits = A::BITS;
    let low_bits = bits - 24;
    let pats = low_patterns(low_bits, thorough);
    let per_top = pats.len() as u64 + nrand;
    let mask_low = (1u64 << low_bits) - 1;
    let lo = A::KIND.min_raw();
    let hi = A::KIND.max_raw();
    let eq = A::KIND.eq_raw();
    let tops: u64 = 1 << 24;
    let chunk_tops: u64 = 1 << 10;
    (0..tops / chunk_tops)
        .into_par_iter()
        .map(|c| {
            vp_core::pan::two_pass(|slow| {
            let mut b = Bulk::default();
            'outer: for top in c * chunk_tops..(c + 1) * chunk_tops {
                for j in 0..per_top {
                    let low = if (j as usize) < pats.len() {
                        pats[j as usize]
                    } else {
                        splitmix(seed ^ (top << 8) ^ j) & mask_low
                    };
                    // bit pattern of `bits` bits
                    let u: u64 = if bits == 64 { (top << 40) | low } else { (top << low_bits) | low };
                    let raw: i128 = if A::SIGNED {
                        // sign-extend the `bits`-bit two's complement pattern
                        let sh = 64 - bits;
                        (((u << sh) as i64) >> sh) as i128
                    } else {
                        u as i128
                    };
                    if let Err(m) = vp_core::guard!(slow, check_typed::<A, B>(raw), |p| p) {
                        b.set_fail(pair_json::<A, B>(raw), m);
                        break 'outer;
                    }
                    b.evals += 1;
                    b.nontrivial += (raw != lo && raw != hi && raw != eq) as u64;
                }
            }
            b
            })
        })
        .reduce(Bulk::default, Bulk::merge)
}

fn triples() -> Vec<(Kind, Kind, Kind)> {
    let mut v = Vec::new();
    for &a in &INT_KINDS {
        for &m in &INT_KINDS {
            for &b in &INT_KINDS {
                if a != b && m != a && m != b && m.bits() >= a.bits().min(b.bits()) {
                    v.push((a, m, b));
                }
            }
        }
    }
    v
}

fn check_triple(c: &TripleCase, st: &mut Stats) -> CheckResult {
    let direct = dyn_conv(c.a, Val::I(c.raw), c.b)?;
    let mid = dyn_conv(c.a, Val::I(c.raw), c.m)?;
    let via = dyn_conv(c.m, mid, c.b)?;
    st.nt(c.raw != c.a.min_raw() && c.raw != c.a.max_raw() && c.raw != c.a.eq_raw());
    st.class_if(c.m.bits() < c.a.bits().max(c.b.bits()), "intermediate narrower than one endpoint");
    ensure!(
        direct == via,
        "{}->{}->{} of raw {} gives {:?} but direct {}->{} gives {:?}",
        c.a.name(), c.m.name(), c.b.name(), c.raw, via, c.a.name(), c.b.name(), direct
    );
    // and both equal the statement
    ensure!(direct == Val::I(conv_int_int(c.a, c.raw, c.b)), "direct conversion differs from the reference");
    Ok(())
}

pub fn run(ctx: &mut Ctx) {
    ctx.set_rule(
        "cases are (source format, target format, source value) triples; exhaustive over every value of the 8/16/24/32-bit \
         sources for all 11 targets, (top 24 bits exhaustive) x (low-part patterns) for 48/64-bit sources, boundary sets and \
         proptest-random wide values; a case is non-trivial when the value is not MIN, equilibrium or MAX of its format \
         (the three points the unit tests have); exhaustive ranges are distinct by construction, random ones are de-duplicated by hash",
    );
    ctx.assume("oracle = floor(amp * 2^(t-s)) + target offset in i128 (the statement verbatim); order preservation, losslessness of widening, extreme->extreme and equilibrium->equilibrium are consequences of exact agreement with that monotone formula on every enumerated value");
    ctx.assume("48/64-bit sources are structured samples, not exhausted");

    let replay_pair = |v: &Value, st: &mut Stats| -> CheckResult {
        let c: PairCase = serde_json::from_value(v.clone()).map_err(|e| e.to_string())?;
        check_pair_dyn(&c, st)
    };

    let seed = ctx.sub_seed("structured");
    let thorough = ctx.thorough();
    let nrand = ctx.pick(2, 64);
    // (a) all values of every <= 24-bit (thorough: <= 32-bit) source, all 11 targets
    macro_rules! narrow {
        ($A:ty, $B:ty) => {
            if <$A as IntFmt>::BITS <= 24 || (<$A as IntFmt>::BITS == 32 && thorough) {
                let sub = format!("exhaustive/{}->{}", <$A as Fmt>::name(), <$B as Fmt>::name());
                ctx.bulk(&sub, true, replay_pair, || exhaust_pair::<$A, $B>());
            }
        };
    }
    crate::for_int_pairs!(narrow);

    // (b) wide sources (and, in the quick tier, the 32-bit ones): top 24 bits exhaustive x low patterns
    macro_rules! wide {
        ($A:ty, $B:ty) => {
            if <$A as IntFmt>::BITS > 32 || (<$A as IntFmt>::BITS == 32 && !thorough) {
                let sub = format!("structured/{}->{}", <$A as Fmt>::name(), <$B as Fmt>::name());
                ctx.bulk(&sub, false, replay_pair, || structured_pair::<$A, $B>(seed, thorough, nrand));
            }
        };
    }
    crate::for_int_pairs!(wide);

    // (c) boundaries of every format, all pairs, dynamic path
    let mut bcases = Vec::new();
    for &s in &INT_KINDS {
        for &d in &INT_KINDS {
            if s != d {
                for r in boundary_raws(s) {
                    bcases.push(PairCase { src: s, dst: d, raw: r });
                }
            }
        }
    }
    ctx.enumerate("boundaries", true, bcases.into_iter(), check_pair_dyn);
    ctx.enumerate("equilibrium-constants", true, INT_KINDS.iter().map(|&kind| EqCase { kind }), check_equilibrium);

    // (d) proptest-random values of the wide formats (shrinking gives a minimal value)
    let wide_kinds: Vec<Kind> = INT_KINDS.iter().copied().filter(|k| k.bits() > 32).collect();
    let strat = (0..wide_kinds.len(), 0..INT_KINDS.len(), any::<u64>(), 0u32..64)
        .prop_map(move |(si, di, bitsrc, shift)| {
            let src = wide_kinds[si];
            let mut dst = INT_KINDS[di];
            if dst == src {
                dst = INT_KINDS[(di + 1) % INT_KINDS.len()];
            }
            // random magnitude class: shift right to vary the width
            let span = (src.max_raw() - src.min_raw() + 1) as u128;
            let off = ((bitsrc >> shift) as u128) % span;
            // centre small offsets on equilibrium so that shrinking moves toward it
            let half = (span / 2) as i128;
            let raw = if shift % 2 == 0 {
                src.min_raw() + off as i128
            } else {
                let o = off as i128;
                let a = if o >= half { o - span as i128 } else { o };
                src.eq_raw() + a.clamp(src.min_raw() - src.eq_raw(), src.max_raw() - src.eq_raw())
            };
            PairCase { src, dst, raw }
        });
    ctx.prop("random-wide", ctx.pick(200_000, 2_000_000), strat, check_pair_dyn);

    // (e) converting through an intermediate format at least as wide as the narrower endpoint
    let tr = triples();
    let small: Vec<(Kind, Kind, Kind)> = tr.iter().copied().filter(|t| t.0.bits() <= 16).collect();
    // index space: for each small triple, all values of a
    let mut offsets = Vec::with_capacity(small.len() + 1);
    let mut total = 0u64;
    for t in &small {
        offsets.push(total);
        total += 1u64 << t.0.bits();
    }
    offsets.push(total);
    let small2 = small.clone();
    let offsets2 = offsets.clone();
    ctx.par_enumerate(
        "via-intermediate/exhaustive-8-16",
        true,
        total,
        move |i| {
            let k = offsets2.partition_point(|&o| o <= i) - 1;
            let (a, m, b) = small2[k];
            TripleCase { a, m, b, raw: a.min_raw() + (i - offsets2[k]) as i128 }
        },
        check_triple,
    );
    let big: Vec<(Kind, Kind, Kind)> = tr.iter().copied().filter(|t| t.0.bits() > 16).collect();
    let per: u64 = ctx.pick(1 << 12, 1 << 16);
    let seed2 = ctx.sub_seed("via-intermediate");
    let nb = big.len() as u64;
    let bounds: Vec<Vec<i128>> = big.iter().map(|t| boundary_raws(t.0)).collect();
    ctx.par_enumerate(
        "via-intermediate/structured-wide",
        false,
        nb * per,
        move |i| {
            let k = (i / per) as usize;
            let j = i % per;
            let (a, m, b) = big[k];
            let bl = &bounds[k];
            let raw = if (j as usize) < bl.len() {
                bl[j as usize]
            } else {
                let span = (a.max_raw() - a.min_raw() + 1) as u128;
                let r = ((splitmix(seed2 ^ i) as u128) << 64 | splitmix(seed2 ^ i ^ 0xabcdef) as u128) % span;
                a.min_raw() + r as i128
            };
            TripleCase { a, m, b, raw }
        },
        check_triple,
    );

    ctx.explain("Bounded-exhaustive: all 2^8+2^16+2^24 (and, in the thorough tier, 2^32) values of each signed and unsigned <=32-bit source against all 11 targets through all three entry points.");
    let _ = json!(null);
}
