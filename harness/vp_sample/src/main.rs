//! vp_sample — C01, C02, C03, C15 (sample / frame level).
mod c01;
mod c02;
mod c03;
mod c15;
mod table;

fn main() {
    let mut ctx = vp_core::Ctx::from_args();
    ctx.self_test("softfloat", vp_core::softfloat::self_test());
    ctx.self_test("allocator", vp_core::alloc::self_test());
    match ctx.id.as_str() {
        "C01" => c01::run(&mut ctx),
        "C02" => c02::run(&mut ctx),
        "C03" => c03::run(&mut ctx),
        "C15" => c15::run(&mut ctx),
        other => {
            eprintln!("vp_sample: unknown property {}", other);
            std::process::exit(2);
        }
    }
    std::process::exit(ctx.finish());
}
