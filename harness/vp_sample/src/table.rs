//! The 14 x 13 conversion table: for every ordered pair of distinct formats, the three public
//! entry points (`conv::<src>::to_<dst>`, `Sample::to_sample`, `Sample::from_sample`).

use dasp_sample::{conv, Sample, I24, I48, U24, U48};
use vp_core::fmt::{Fmt, Kind, Val};

/// Typed pair A -> B.
pub trait Pair<B: Fmt>: Fmt {
    fn via_module(self) -> B;
    fn via_to_sample(self) -> B;
    fn via_from_sample(self) -> B;
}

fn same(a: Val, b: Val) -> bool {
    match (a, b) {
        (Val::I(x), Val::I(y)) => x == y,
        (Val::F32(x), Val::F32(y)) => x.to_bits() == y.to_bits() || (x.is_nan() && y.is_nan()),
        (Val::F64(x), Val::F64(y)) => x.to_bits() == y.to_bits() || (x.is_nan() && y.is_nan()),
        _ => false,
    }
}

/// All three entry points; they must agree.
#[inline]
pub fn conv3<A: Pair<B>, B: Fmt>(a: A) -> Result<B, String> {
    let m = a.via_module();
    let t = a.via_to_sample();
    let f = a.via_from_sample();
    if !same(m.to_val(), t.to_val()) || !same(m.to_val(), f.to_val()) {
        return Err(format!(
            "entry points disagree for {}->{} on {:?}: conv fn {:?}, to_sample {:?}, from_sample {:?}",
            A::name(), B::name(), a, m, t, f
        ));
    }
    Ok(m)
}

/// Dynamic target dispatch for a typed source.
pub trait Conv: Fmt {
    fn conv_to(self, dst: Kind) -> Result<Val, String>;
}

macro_rules! row {
    ($A:ty, $amod:ident => $( $B:ty : $to:ident ),* ) => {
        $(
            impl Pair<$B> for $A {
                #[inline] fn via_module(self) -> $B { conv::$amod::$to(self) }
                #[inline] fn via_to_sample(self) -> $B { self.to_sample::<$B>() }
                #[inline] fn via_from_sample(self) -> $B { <$B as Sample>::from_sample(self) }
            }
        )*
        impl Conv for $A {
            fn conv_to(self, dst: Kind) -> Result<Val, String> {
                $( if dst == <$B as Fmt>::KIND { return conv3::<$A, $B>(self).map(|b| b.to_val()); } )*
                if dst == <$A as Fmt>::KIND {
                    // identity conversion exists only through the traits
                    let t: $A = self.to_sample::<$A>();
                    return Ok(t.to_val());
                }
                Err(format!("no such conversion {:?}->{:?}", <$A as Fmt>::KIND, dst))
            }
        }
    };
}

row!(i8, i8 => i16:to_i16, I24:to_i24, i32:to_i32, I48:to_i48, i64:to_i64, u8:to_u8, u16:to_u16, U24:to_u24, u32:to_u32, U48:to_u48, u64:to_u64, f32:to_f32, f64:to_f64);
row!(i16, i16 => i8:to_i8, I24:to_i24, i32:to_i32, I48:to_i48, i64:to_i64, u8:to_u8, u16:to_u16, U24:to_u24, u32:to_u32, U48:to_u48, u64:to_u64, f32:to_f32, f64:to_f64);
row!(I24, i24 => i8:to_i8, i16:to_i16, i32:to_i32, I48:to_i48, i64:to_i64, u8:to_u8, u16:to_u16, U24:to_u24, u32:to_u32, U48:to_u48, u64:to_u64, f32:to_f32, f64:to_f64);
row!(i32, i32 => i8:to_i8, i16:to_i16, I24:to_i24, I48:to_i48, i64:to_i64, u8:to_u8, u16:to_u16, U24:to_u24, u32:to_u32, U48:to_u48, u64:to_u64, f32:to_f32, f64:to_f64);
row!(I48, i48 => i8:to_i8, i16:to_i16, I24:to_i24, i32:to_i32, i64:to_i64, u8:to_u8, u16:to_u16, U24:to_u24, u32:to_u32, U48:to_u48, u64:to_u64, f32:to_f32, f64:to_f64);
row!(i64, i64 => i8:to_i8, i16:to_i16, I24:to_i24, i32:to_i32, I48:to_i48, u8:to_u8, u16:to_u16, U24:to_u24, u32:to_u32, U48:to_u48, u64:to_u64, f32:to_f32, f64:to_f64);
row!(u8, u8 => i8:to_i8, i16:to_i16, I24:to_i24, i32:to_i32, I48:to_i48, i64:to_i64, u16:to_u16, U24:to_u24, u32:to_u32, U48:to_u48, u64:to_u64, f32:to_f32, f64:to_f64);
row!(u16, u16 => i8:to_i8, i16:to_i16, I24:to_i24, i32:to_i32, I48:to_i48, i64:to_i64, u8:to_u8, U24:to_u24, u32:to_u32, U48:to_u48, u64:to_u64, f32:to_f32, f64:to_f64);
row!(U24, u24 => i8:to_i8, i16:to_i16, I24:to_i24, i32:to_i32, I48:to_i48, i64:to_i64, u8:to_u8, u16:to_u16, u32:to_u32, U48:to_u48, u64:to_u64, f32:to_f32, f64:to_f64);
row!(u32, u32 => i8:to_i8, i16:to_i16, I24:to_i24, i32:to_i32, I48:to_i48, i64:to_i64, u8:to_u8, u16:to_u16, U24:to_u24, U48:to_u48, u64:to_u64, f32:to_f32, f64:to_f64);
row!(U48, u48 => i8:to_i8, i16:to_i16, I24:to_i24, i32:to_i32, I48:to_i48, i64:to_i64, u8:to_u8, u16:to_u16, U24:to_u24, u32:to_u32, u64:to_u64, f32:to_f32, f64:to_f64);
row!(u64, u64 => i8:to_i8, i16:to_i16, I24:to_i24, i32:to_i32, I48:to_i48, i64:to_i64, u8:to_u8, u16:to_u16, U24:to_u24, u32:to_u32, U48:to_u48, f32:to_f32, f64:to_f64);
row!(f32, f32 => i8:to_i8, i16:to_i16, I24:to_i24, i32:to_i32, I48:to_i48, i64:to_i64, u8:to_u8, u16:to_u16, U24:to_u24, u32:to_u32, U48:to_u48, u64:to_u64, f64:to_f64);
row!(f64, f64 => i8:to_i8, i16:to_i16, I24:to_i24, i32:to_i32, I48:to_i48, i64:to_i64, u8:to_u8, u16:to_u16, U24:to_u24, u32:to_u32, U48:to_u48, u64:to_u64, f32:to_f32);

/// Fully dynamic conversion through the real dasp code (all three entry points).
pub fn dyn_conv(src: Kind, v: Val, dst: Kind) -> Result<Val, String> {
    macro_rules! arm {
        ($($T:ty),*) => {
            $( if src == <$T as Fmt>::KIND { return <$T as Fmt>::from_val(v).conv_to(dst); } )*
        };
    }
    arm!(i8, i16, I24, i32, I48, i64, u8, u16, U24, u32, U48, u64, f32, f64);
    Err(format!("unknown source kind {:?}", src))
}

/// `$m!(A, B)` for each of the 132 ordered pairs of distinct integer formats.
#[macro_export]
macro_rules! for_int_pairs {
    ($m:ident) => {
        $crate::for_int_pairs!(@row $m, i8; i16, I24, i32, I48, i64, u8, u16, U24, u32, U48, u64);
        $crate::for_int_pairs!(@row $m, i16; i8, I24, i32, I48, i64, u8, u16, U24, u32, U48, u64);
        $crate::for_int_pairs!(@row $m, I24; i8, i16, i32, I48, i64, u8, u16, U24, u32, U48, u64);
        $crate::for_int_pairs!(@row $m, i32; i8, i16, I24, I48, i64, u8, u16, U24, u32, U48, u64);
        $crate::for_int_pairs!(@row $m, I48; i8, i16, I24, i32, i64, u8, u16, U24, u32, U48, u64);
        $crate::for_int_pairs!(@row $m, i64; i8, i16, I24, i32, I48, u8, u16, U24, u32, U48, u64);
        $crate::for_int_pairs!(@row $m, u8; i8, i16, I24, i32, I48, i64, u16, U24, u32, U48, u64);
        $crate::for_int_pairs!(@row $m, u16; i8, i16, I24, i32, I48, i64, u8, U24, u32, U48, u64);
        $crate::for_int_pairs!(@row $m, U24; i8, i16, I24, i32, I48, i64, u8, u16, u32, U48, u64);
        $crate::for_int_pairs!(@row $m, u32; i8, i16, I24, i32, I48, i64, u8, u16, U24, U48, u64);
        $crate::for_int_pairs!(@row $m, U48; i8, i16, I24, i32, I48, i64, u8, u16, U24, u32, u64);
        $crate::for_int_pairs!(@row $m, u64; i8, i16, I24, i32, I48, i64, u8, u16, U24, u32, U48);
    };
    (@row $m:ident, $A:ty; $($B:ty),*) => { $( $m!($A, $B); )* };
}
