//! C02 — float<->integer conversion: exact scaling, truncation toward zero, [-1,1];
//! f32->f64 exact, f64->f32 correctly rounded.

use crate::table::{conv3, dyn_conv, Pair};
#[allow(unused_imports)]
use dasp_sample::{I24, I48, U24, U48};
use proptest::prelude::*;
use rayon::prelude::*;
use serde::{Deserialize, Serialize};
use vp_core::fmt::{self, boundary_raws, Fmt, IntFmt, Kind, Val, INT_KINDS};
use vp_core::softfloat as sf;
use vp_core::{ensure, Bulk, CheckResult, Ctx, Stats, Value};

/// `raw` is the integer raw value for integer sources, the IEEE bit pattern for float sources.
#[derive(Clone, Debug, Serialize, Deserialize)]
pub struct Case {
    pub src: Kind,
    pub dst: Kind,
    pub raw: i128,
}

fn splitmix(mut x: u64) -> u64 {
    x = x.wrapping_add(0x9e37_79b9_7f4a_7c15);
    let mut z = x;
    z = (z ^ (z >> 30)).wrapping_mul(0xbf58_476d_1ce4_e5b9);
    z = (z ^ (z >> 27)).wrapping_mul(0x94d0_49bb_1331_11eb);
    z ^ (z >> 31)
}

fn val_of(c: &Case) -> Val {
    match c.src {
        Kind::Int { .. } => Val::I(c.raw),
        Kind::F32 => Val::F32(f32::from_bits(c.raw as u32)),
        Kind::F64 => Val::F64(f64::from_bits(c.raw as u64)),
    }
}

fn same(a: Val, b: Val) -> bool {
    match (a, b) {
        (Val::I(x), Val::I(y)) => x == y,
        (Val::F32(x), Val::F32(y)) => x.to_bits() == y.to_bits() || (x.is_nan() && y.is_nan()),
        (Val::F64(x), Val::F64(y)) => x.to_bits() == y.to_bits() || (x.is_nan() && y.is_nan()),
        _ => false,
    }
}

/// The statement through the dynamic path (replay, boundaries, proptest).
pub fn check_dyn(c: &Case, st: &mut Stats) -> CheckResult {
    let v = val_of(c);
    let exp = match fmt::conv(c.src, v, c.dst) {
        Some(e) => e,
        None => return Err("case outside the documented domain [-1.0, 1.0) (bad case, not a violation)".into()),
    };
    let got = dyn_conv(c.src, v, c.dst)?;
    match (c.src, c.dst) {
        (Kind::Int { .. }, _) => {
            st.nt(c.raw != c.src.min_raw() && c.raw != c.src.max_raw() && c.raw != c.src.eq_raw());
            st.class_if(c.src.bits() > c.dst.float_p(), "int wider than mantissa (rounding)");
            st.class("int->float");
            let g = match got {
                Val::F32(x) => x as f64,
                Val::F64(x) => x,
                _ => return Err("non-float result".into()),
            };
            ensure!(g >= -1.0 && g <= 1.0, "int->float result {} outside [-1,1]", g);
            if c.raw == c.src.eq_raw() {
                ensure!(g == 0.0, "equilibrium does not map to 0.0");
            }
        }
        (_, Kind::Int { .. }) => {
            let d = match v {
                Val::F32(x) => sf::dec_f32(x),
                Val::F64(x) => sf::dec_f64(x),
                _ => None,
            }
            .unwrap();
            let frac = !sf::scaled_is_integer(d, c.dst.bits() as i32 - 1);
            st.nt(frac || (d.neg && d.mant != 0));
            st.class_if(frac && d.neg, "negative with fractional part (truncation direction)");
            st.class_if(frac && !d.neg, "positive with fractional part");
            st.class("float->int");
            if let Val::I(r) = got {
                ensure!(c.dst.in_range_raw(r), "float->int result {} outside the target range", r);
            }
        }
        _ => {
            st.nt(true);
            st.class("float<->float");
        }
    }
    ensure!(
        same(got, exp),
        "{}->{} of {:?}: got {:?}, expected {:?}",
        c.src.name(), c.dst.name(), v, got, exp
    );
    Ok(())
}

/// A custom-width sample obtained through `From<backing integer>` from a value outside the range (which wraps into range)
/// must convert exactly like the same sample obtained through `new`.
#[derive(Clone, Debug, Serialize, Deserialize)]
pub struct WrappedCase {
    pub kind: Kind,
    pub raw: i128,
    /// the backing value handed to `From` is raw + periods * 2^bits
    pub periods: i8,
}

pub fn check_wrapped(c: &WrappedCase, st: &mut Stats) -> CheckResult {
    use dasp_sample::Sample;
    st.nt(true);
    macro_rules! one {
        ($T:ty, $rep:ty) => {
            if c.kind == <$T as Fmt>::KIND {
                let x = c.raw + ((c.periods as i128) << c.kind.bits());
                ensure!(c.kind.in_range_raw(c.raw) && x >= <$rep>::MIN as i128 && x <= <$rep>::MAX as i128, "bad case: backing value does not fit");
                let a = <$T>::from(x as $rep);
                let b = <$T>::new(c.raw as $rep).ok_or("bad case: raw out of range")?;
                let what = format!("{}::from({}) (= {} + {} x 2^{})", c.kind.name(), x, c.raw, c.periods, c.kind.bits());
                ensure!(a.to_sample::<f64>().to_bits() == b.to_sample::<f64>().to_bits(), "{} converts to f64 {}, the in-range sample {} converts to {}", what, a.to_sample::<f64>(), c.raw, b.to_sample::<f64>());
                ensure!(a.to_sample::<f32>().to_bits() == b.to_sample::<f32>().to_bits(), "{} converts to f32 {}, the in-range sample converts to {}", what, a.to_sample::<f32>(), b.to_sample::<f32>());
                ensure!(a.to_sample::<f64>() >= -1.0 && a.to_sample::<f64>() < 1.0, "{} converts to f64 {} outside [-1, 1)", what, a.to_sample::<f64>());
                ensure!(a.to_sample::<u64>() == b.to_sample::<u64>() && a.to_sample::<i16>() == b.to_sample::<i16>() && a.to_sample::<u8>() == b.to_sample::<u8>(), "{} converts to u64/i16/u8 differently from the in-range sample {}", what, c.raw);
                return Ok(());
            }
        };
    }
    one!(I24, i32);
    one!(U24, i32);
    one!(I48, i64);
    one!(U48, i64);
    Err("bad case: not a custom-width format".into())
}

/// The format's `Sample::EQUILIBRIUM` constant is the sample that converts to 0.0, and 0.0 converts to it.
#[derive(Clone, Debug, Serialize, Deserialize)]
pub struct EqCase {
    pub kind: Kind,
}

pub fn check_equilibrium(c: &EqCase, st: &mut Stats) -> CheckResult {
    use dasp_sample::Sample;
    st.nt(true);
    macro_rules! one {
        ($A:ty) => {
            if c.kind == <$A as Fmt>::KIND {
                let e = <$A as Sample>::EQUILIBRIUM;
                ensure!(e.to_val() == Val::I(c.kind.eq_raw()), "{}::EQUILIBRIUM = {:?}, the amplitude-0 value of the format is {}", c.kind.name(), e.to_val(), c.kind.eq_raw());
                let (a, b) = (e.to_sample::<f32>(), e.to_sample::<f64>());
                ensure!(a == 0.0 && b == 0.0, "{}::EQUILIBRIUM converts to f32 {} / f64 {}, expected 0.0", c.kind.name(), a, b);
                for z in [0.0f64, -0.0] {
                    let (x, y): ($A, $A) = ((z as f32).to_sample(), z.to_sample());
                    ensure!(x == e && y == e, "{} as f32 / f64 converts to {} {:?} / {:?}, expected the format's EQUILIBRIUM {:?}", z, c.kind.name(), x.to_val(), y.to_val(), e.to_val());
                }
                return Ok(());
            }
        };
    }
    vp_core::for_int_formats!(one);
    Err("bad case: unknown format".into())
}

fn case_json(src: Kind, dst: Kind, raw: i128) -> Value {
    serde_json::to_value(Case { src, dst, raw }).unwrap()
}

// ---------------------------------------------------------------- int -> float, typed fast loops

#[inline(always)]
fn check_int_to_floats<A>(raw: i128) -> Result<(), (Kind, String)>
where
    A: IntFmt + Pair<f32> + Pair<f64>,
    f32: Pair<A>,
    f64: Pair<A>,
{
    let a = A::from_raw(raw);
    let g32 = conv3::<A, f32>(a).map_err(|e| (Kind::F32, e))?;
    let e32 = fmt::conv_int_f32(A::KIND, raw);
    if g32.to_bits() != e32.to_bits() {
        return Err((Kind::F32, format!("{}->f32 of raw {}: got {:e} ({:#x}), expected {:e} ({:#x})", A::name(), raw, g32, g32.to_bits(), e32, e32.to_bits())));
    }
    let g64 = conv3::<A, f64>(a).map_err(|e| (Kind::F64, e))?;
    let e64 = fmt::conv_int_f64(A::KIND, raw);
    if g64.to_bits() != e64.to_bits() {
        return Err((Kind::F64, format!("{}->f64 of raw {}: got {:e}, expected {:e}", A::name(), raw, g64, e64)));
    }
    if !(g32 >= -1.0 && g32 <= 1.0 && g64 >= -1.0 && g64 <= 1.0) {
        return Err((Kind::F32, format!("{}->float of raw {} outside [-1,1]", A::name(), raw)));
    }
    // round trip wherever the width fits the mantissa
    if A::BITS <= 24 {
        let back = conv3::<f32, A>(g32).map_err(|e| (Kind::F32, e))?;
        if back.raw() != raw {
            return Err((Kind::F32, format!("{} -> f32 -> {} round trip of raw {} gives {}", A::name(), A::name(), raw, back.raw())));
        }
    }
    if A::BITS <= 53 {
        let back = conv3::<f64, A>(g64).map_err(|e| (Kind::F64, e))?;
        if back.raw() != raw {
            return Err((Kind::F64, format!("{} -> f64 -> {} round trip of raw {} gives {}", A::name(), A::name(), raw, back.raw())));
        }
    }
    Ok(())
}

/// enumerate raw values `raw_of(i)` for i in 0..n
fn int_to_float_bulk<A>(n: u64, raw_of: impl Fn(u64) -> i128 + Sync) -> Bulk
where
    A: IntFmt + Pair<f32> + Pair<f64>,
    f32: Pair<A>,
    f64: Pair<A>,
{
    let chunk = 1u64 << 14;
    let (lo, hi, eq) = (A::KIND.min_raw(), A::KIND.max_raw(), A::KIND.eq_raw());
    (0..n.div_ceil(chunk))
        .into_par_iter()
        .map(|c| {
            vp_core::pan::two_pass(|slow| {
                let mut b = Bulk::default();
                for i in c * chunk..((c + 1) * chunk).min(n) {
                    let raw = raw_of(i);
                    if let Err((dst, m)) = vp_core::guard!(slow, check_int_to_floats::<A>(raw), |p| (Kind::F32, p)) {
                        b.set_fail(case_json(A::KIND, dst, raw), m);
                        break;
                    }
                    b.evals += 2;
                    b.nontrivial += 2 * (raw != lo && raw != hi && raw != eq) as u64;
                }
                b
            })
        })
        .reduce(Bulk::default, Bulk::merge)
}

// ---------------------------------------------------------------- f32 -> int, typed fast loops

#[inline(always)]
fn check_f32_to_int<B: IntFmt>(x: f32) -> Result<bool, String>
where
    f32: Pair<B>,
{
    let d = sf::dec_f32(x).unwrap();
    let exp = match fmt::conv_dec_int(d, B::KIND) {
        Some(e) => e,
        None => return Err("harness: input outside domain".into()),
    };
    let got = conv3::<f32, B>(x)?;
    if got.raw() != exp {
        return Err(format!("f32->{} of {:e} ({:#x}): got {}, expected trunc(x*2^{})+offset = {}", B::name(), x, x.to_bits(), got.raw(), B::BITS - 1, exp));
    }
    Ok(!sf::scaled_is_integer(d, B::BITS as i32 - 1) || (d.neg && d.mant != 0))
}

/// f32 bit patterns in the documented domain: index i -> pattern.  Positive patterns
/// 0 .. 0x3f80_0000 (exclusive: 1.0 is excluded), then negative 0x8000_0000 ..= 0xbf80_0000.
const F32_POS: u64 = 0x3f80_0000;
const F32_DOMAIN: u64 = F32_POS + F32_POS + 1;
fn f32_pattern(i: u64) -> u32 {
    if i < F32_POS {
        i as u32
    } else {
        0x8000_0000u32 + (i - F32_POS) as u32
    }
}

fn f32_to_int_bulk<B: IntFmt>(stride: u64, seed: u64) -> Bulk
where
    f32: Pair<B>,
{
    let n = F32_DOMAIN.div_ceil(stride);
    let chunk = 1u64 << 14;
    (0..n.div_ceil(chunk))
        .into_par_iter()
        .map(|c| {
            vp_core::pan::two_pass(|slow| {
            let mut b = Bulk::default();
            for j in c * chunk..((c + 1) * chunk).min(n) {
                // one pattern per stride window, at a seed-derived offset (stride 1 = all patterns)
                let off = if stride == 1 { 0 } else { splitmix(seed ^ j) % stride };
                let i = (j * stride + off).min(F32_DOMAIN - 1);
                let bits = f32_pattern(i);
                let x = f32::from_bits(bits);
                match vp_core::guard!(slow, check_f32_to_int::<B>(x), |p| p) {
                    Ok(nt) => {
                        b.evals += 1;
                        b.nontrivial += nt as u64;
                    }
                    Err(m) => {
                        b.set_fail(case_json(Kind::F32, B::KIND, bits as i128), m);
                        break;
                    }
                }
            }
            b
            })
        })
        .reduce(Bulk::default, Bulk::merge)
}

// ---------------------------------------------------------------- f32 -> f64 over bit patterns

fn f32_to_f64_bulk(stride: u64, seed: u64) -> Bulk {
    let total = 1u64 << 32;
    let n = total / stride;
    let chunk = 1u64 << 14;
    (0..n.div_ceil(chunk))
        .into_par_iter()
        .map(|c| {
            vp_core::pan::two_pass(|slow| {
            let mut b = Bulk::default();
            for j in c * chunk..((c + 1) * chunk).min(n) {
                let off = if stride == 1 { 0 } else { splitmix(seed ^ j) % stride };
                let bits = (j * stride + off) as u32;
                let x = f32::from_bits(bits);
                let got = match vp_core::guard!(slow, conv3::<f32, f64>(x), |p| p) {
                    Ok(g) => g,
                    Err(e) => {
                        b.set_fail(case_json(Kind::F32, Kind::F64, bits as i128), e);
                        break;
                    }
                };
                let exp = sf::f32_to_f64_ref(x);
                let ok = if x.is_nan() { got.is_nan() } else { got.to_bits() == exp.to_bits() };
                if !ok {
                    b.set_fail(case_json(Kind::F32, Kind::F64, bits as i128), format!("f32->f64 of {:#x}: got {:e}, expected {:e}", bits, got, exp));
                    break;
                }
                b.evals += 1;
                b.nontrivial += (x != 0.0 && x != -1.0) as u64;
            }
            b
            })
        })
        .reduce(Bulk::default, Bulk::merge)
}

// ---------------------------------------------------------------- strategies

/// f64 bit patterns in [-1, 1): sign, exponent field 0..=1022 (value < 1), any mantissa; plus -1.0
fn f64_domain_bits() -> impl Strategy<Value = u64> {
    prop_oneof![
        8 => (any::<bool>(), 0u64..=1022, any::<u64>()).prop_map(|(s, e, m)| ((s as u64) << 63) | (e << 52) | (m & 0xf_ffff_ffff_ffff)),
        // close to full scale
        4 => (any::<bool>(), 1000u64..=1022, any::<u64>()).prop_map(|(s, e, m)| ((s as u64) << 63) | (e << 52) | (m & 0xf_ffff_ffff_ffff)),
        // subnormals and zeros
        1 => (any::<bool>(), any::<u64>(), 0u32..53).prop_map(|(s, m, sh)| ((s as u64) << 63) | ((m & 0xf_ffff_ffff_ffff) >> sh)),
        1 => Just((-1.0f64).to_bits()),
        1 => Just((1.0f64 - f64::EPSILON / 2.0).to_bits()),
        1 => Just((-1.0f64 + f64::EPSILON / 2.0).to_bits()),
    ]
}

fn f32_domain_bits() -> impl Strategy<Value = u32> {
    prop_oneof![
        8 => (any::<bool>(), 0u32..=126, any::<u32>()).prop_map(|(s, e, m)| ((s as u32) << 31) | (e << 23) | (m & 0x7f_ffff)),
        4 => (any::<bool>(), 100u32..=126, any::<u32>()).prop_map(|(s, e, m)| ((s as u32) << 31) | (e << 23) | (m & 0x7f_ffff)),
        1 => (any::<bool>(), any::<u32>(), 0u32..24).prop_map(|(s, m, sh)| ((s as u32) << 31) | ((m & 0x7f_ffff) >> sh)),
        1 => Just((-1.0f32).to_bits()),
    ]
}

/// the truncation decision points of a target format: (k +- j ulp) / 2^(bits-1)
fn decision_point_f64(dst: Kind, kseed: u64, j: i64) -> Option<u64> {
    let bits = dst.bits();
    // k with at most 53 significant bits so that k/2^(bits-1) is exactly representable
    let mut k = (kseed >> (64 - (bits - 1))) as i128; // 0 .. 2^(bits-1)
    if bits > 54 {
        let drop = (splitmix(kseed) % (bits as u64 - 53)) as u32 + (bits - 54);
        k = (k >> drop) << drop;
    }
    let neg = kseed & 1 == 1;
    let x = sf::round_i128_to_f64(if neg { -k } else { k }, -(bits as i32 - 1));
    let b = x.to_bits() as i64 + j;
    let y = f64::from_bits(b as u64);
    if y.is_finite() && y >= -1.0 && y < 1.0 {
        Some(y.to_bits())
    } else {
        None
    }
}

pub fn run(ctx: &mut Ctx) {
    ctx.set_rule(
        "cases are (source format, target format, value) with the value an integer raw value or an IEEE bit pattern; integer sources \
         enumerated exhaustively (<=24 bit; thorough <=32 bit) or structured (top 24 bits x low patterns, boundaries, random, and for every magnitude the neighbourhood of the mantissa's rounding half-way point +- {0,1,2, a few low bits}); float \
         sources only inside the documented domain [-1.0, 1.0): all f32 patterns (thorough) or one seed-chosen pattern per window of 64 \
         (quick), f64 by proptest over sign/exponent/mantissa plus truncation decision points (k +- 0..2 ulp)/2^(bits-1), plus boundary patterns of both float types (the largest values below 1.0, powers of two and their neighbours, zeros, subnormals); non-trivial: \
         int source not MIN/eq/MAX, float->int input negative or with a non-zero fractional part after scaling, any float<->float case",
    );
    ctx.assume("oracle = soft-float round-to-nearest-even of amp/2^(bits-1) (int->float), trunc(x*2^(bits-1)) on the decomposed float in i128 (float->int), soft-float widening/narrowing (float<->float); the soft-float routines are cross-checked against hardware casts at start-up");
    ctx.assume("float inputs >= 1.0, < -1.0, NaN and infinities are outside the documented domain of float->int and are not generated for it");
    ctx.assume("order preservation and in-range-ness follow from bit-exact agreement with a monotone in-range reference on every explored value; both are additionally asserted on the results");

    let replay = |v: &Value, st: &mut Stats| -> CheckResult {
        let c: Case = serde_json::from_value(v.clone()).map_err(|e| e.to_string())?;
        check_dyn(&c, st)
    };
    let thorough = ctx.thorough();
    let seed = ctx.sub_seed("bulk");

    // (a) int -> f32/f64 (+ round trip)
    macro_rules! int_src {
        ($A:ty) => {{
            let k = <$A as Fmt>::KIND;
            let bits = <$A as IntFmt>::BITS;
            let lo = k.min_raw();
            if bits <= 24 || (bits == 32 && thorough) {
                let sub = format!("int->float/exhaustive/{}", k.name());
                ctx.bulk(&sub, true, replay, || int_to_float_bulk::<$A>(1u64 << bits, |i| lo + i as i128));
            } else {
                // top 24 bits exhaustive x {0, all-ones, 2 random} low parts (thorough: 64 random)
                let nlow: u64 = if thorough { 64 } else { 4 };
                let low_bits = bits - 24;
                let mask = (1u64 << low_bits) - 1;
                let sub = format!("int->float/structured/{}", k.name());
                ctx.bulk(&sub, false, replay, || {
                    int_to_float_bulk::<$A>((1u64 << 24) * nlow, |i| {
                        let top = i / nlow;
                        let j = i % nlow;
                        let low = match j { 0 => 0, 1 => mask, _ => splitmix(seed ^ i) & mask };
                        let u = (top << low_bits) | low;
                        lo + u as i128
                    })
                });
            }
        }};
    }
    vp_core::for_int_formats!(int_src);

    // (b) f32 -> int over the documented domain
    let stride: u64 = ctx.pick(64, 1);
    macro_rules! f32_dst {
        ($B:ty) => {{
            let sub = format!("f32->int/{}/{}", if stride == 1 { "all-patterns" } else { "one-per-64" }, <$B as Fmt>::name());
            ctx.bulk(&sub, stride == 1, replay, || f32_to_int_bulk::<$B>(stride, seed));
        }};
    }
    vp_core::for_int_formats!(f32_dst);

    // (c) f32 -> f64 over all bit patterns (incl. NaN, inf: only is_nan / exact inf required)
    let stride2: u64 = ctx.pick(16, 1);
    ctx.bulk(if stride2 == 1 { "f32->f64/all-patterns" } else { "f32->f64/one-per-16" }, stride2 == 1, replay, || f32_to_f64_bulk(stride2, seed));

    // (d) boundaries of every integer format -> both floats, dynamic path
    let mut bc = Vec::new();
    for &s in &INT_KINDS {
        for r in boundary_raws(s) {
            bc.push(Case { src: s, dst: Kind::F32, raw: r });
            bc.push(Case { src: s, dst: Kind::F64, raw: r });
        }
    }
    ctx.enumerate("int->float/boundaries", true, bc.into_iter(), check_dyn);

    // (d') neighbourhoods of the rounding half-way points: amplitude = P-bit mantissa at every magnitude, the bit just below the
    // mantissa set, +- {0, 1, 2, a few low bits}: the values on which one rounding and two successive roundings disagree
    let mut combos: Vec<(Kind, Kind, u32)> = Vec::new();
    for &s in &INT_KINDS {
        for d in [Kind::F32, Kind::F64] {
            let p = d.float_p();
            // t = index of the amplitude's leading bit; it must leave room for P mantissa bits and one rounding bit
            for t in p..s.bits() - 1 {
                combos.push((s, d, t));
            }
        }
    }
    let per_combo: u64 = ctx.pick(2 * 18 * 48, 2 * 18 * 1024);
    let seed_hw = ctx.sub_seed("halfway");
    let ncombo = combos.len() as u64;
    ctx.par_enumerate(
        "int->float/halfway-neighbourhoods",
        false,
        ncombo * per_combo,
        move |i| {
            let (s, d, t) = combos[(i % ncombo) as usize];
            let j = i / ncombo;
            let p = d.float_p();
            let (neg, dsel, m) = (j % 2 == 1, (j / 2) % 18, j / 36);
            let r = splitmix(seed_hw ^ (m << 8) ^ t as u64 ^ ((s.bits() as u64) << 48));
            let mant = (1u128 << (p - 1)) | (r as u128 & ((1u128 << (p - 1)) - 1));
            let rb = t - p; // index of the rounding bit
            let base = (mant << (rb + 1)) | (1u128 << rb);
            let small = 1 + (splitmix(r) % (1u64 << rb.min(10))) as i128;
            let delta: i128 = match dsel % 9 {
                0 => 0,
                1 => 1,
                2 => -1,
                3 => 2,
                4 => -2,
                5 => small,
                6 => -small,
                7 => (1i128 << rb) - 1, // everything below the mantissa set
                _ => -(1i128 << rb),    // rounding bit clear: the mantissa itself
            };
            // odd / even mantissa both occur through `r`; dsel >= 9 flips the lowest mantissa bit to get the other tie direction
            let amp = (base ^ if dsel >= 9 { 1u128 << (rb + 1) } else { 0 }) as i128 + delta;
            let amp = if neg { -amp } else { amp };
            let raw = (amp + s.offset()).clamp(s.min_raw(), s.max_raw());
            Case { src: s, dst: d, raw }
        },
        check_dyn,
    );

    // (d'') float -> int boundary patterns: the k largest values below 1.0 and above -1.0, -1.0, zeros, the smallest subnormals,
    // and every power of two 2^-e (e = 1..=70) with its two neighbours, both signs, into every integer format
    let mut bc = Vec::new();
    let mut f32s: Vec<u32> = vec![0, 1, 2, 0x0080_0000, 0x007f_ffff];
    let mut f64s: Vec<u64> = vec![0, 1, 2, 0x0010_0000_0000_0000, 0x000f_ffff_ffff_ffff];
    for k in 1..=4u32 {
        f32s.push(1.0f32.to_bits() - k);
        f64s.push(1.0f64.to_bits() - k as u64);
    }
    for e in 1..=70i32 {
        for j in -1i64..=1 {
            f32s.push((2f32.powi(-e).to_bits() as i64 + j) as u32);
            f64s.push((2f64.powi(-e).to_bits() as i64 + j) as u64);
        }
    }
    for &d in &INT_KINDS {
        for &b in &f32s {
            bc.push(Case { src: Kind::F32, dst: d, raw: b as i128 });
            bc.push(Case { src: Kind::F32, dst: d, raw: (b | 0x8000_0000) as i128 });
        }
        for &b in &f64s {
            bc.push(Case { src: Kind::F64, dst: d, raw: b as i128 });
            bc.push(Case { src: Kind::F64, dst: d, raw: (b | (1u64 << 63)) as i128 });
        }
        bc.push(Case { src: Kind::F32, dst: d, raw: (-1.0f32).to_bits() as i128 });
        bc.push(Case { src: Kind::F64, dst: d, raw: (-1.0f64).to_bits() as i128 });
    }
    ctx.enumerate("float->int/boundaries", true, bc.into_iter(), check_dyn);

    // (d3) custom-width samples that came into being through From<backing integer> with an out-of-range value
    let mut wc = Vec::new();
    for &k in INT_KINDS.iter().filter(|k| k.bits() == 24 || k.bits() == 48) {
        for r in boundary_raws(k) {
            for periods in [-3i8, -2, -1, 1, 2, 3] {
                wc.push(WrappedCase { kind: k, raw: r, periods });
            }
        }
    }
    ctx.enumerate("custom-width/from-backing-integer", true, wc.into_iter(), check_wrapped);
    ctx.enumerate("equilibrium-constants", true, INT_KINDS.iter().map(|&kind| EqCase { kind }), check_equilibrium);

    // (e) f64 -> int: random domain values
    let strat = (f64_domain_bits(), 0..INT_KINDS.len()).prop_map(|(b, d)| Case { src: Kind::F64, dst: INT_KINDS[d], raw: b as i128 });
    ctx.prop("f64->int/random", ctx.pick(300_000, 3_000_000), strat, check_dyn);
    // (f) f64 -> int: truncation decision points
    let per: u64 = ctx.pick(1 << 16, 1 << 20);
    let seed_dp = ctx.sub_seed("decision-points");
    ctx.par_enumerate(
        "f64->int/decision-points",
        false,
        12 * per * 5,
        move |i| {
            let d = INT_KINDS[(i % 12) as usize];
            let j = ((i / 12) % 5) as i64 - 2;
            let ks = splitmix(seed_dp ^ (i / 60));
            let bits = decision_point_f64(d, ks, j).unwrap_or(0);
            Case { src: Kind::F64, dst: d, raw: bits as i128 }
        },
        check_dyn,
    );
    // (g) f32 -> int random (shrinkable) — the bulk loop above has no shrinking
    let strat = (f32_domain_bits(), 0..INT_KINDS.len()).prop_map(|(b, d)| Case { src: Kind::F32, dst: INT_KINDS[d], raw: b as i128 });
    ctx.prop("f32->int/random", ctx.pick(100_000, 1_000_000), strat, check_dyn);

    // (h) f64 -> f32: random bits, half-way points between adjacent f32s +- 1 ulp, overflow threshold, subnormals
    let strat = prop_oneof![
        4 => any::<u64>().prop_filter("finite", |b| f64::from_bits(*b).is_finite()),
        // exact midpoints between adjacent finite f32s, +- 0..1 f64 ulp
        6 => (any::<u32>().prop_filter("finite f32", |b| f32::from_bits(*b).is_finite() && f32::from_bits(b.wrapping_add(1)).is_finite()), -1i64..=1)
            .prop_map(|(b, j)| {
                let lo = sf::f32_to_f64_ref(f32::from_bits(b));
                let hi = sf::f32_to_f64_ref(f32::from_bits(b + 1));
                let mid = (lo + hi) / 2.0; // exact: neighbours differ in one f32 ulp
                (mid.to_bits() as i64 + j) as u64
            }),
        // around the overflow threshold 2^128 - 2^103
        1 => (-3i64..=3, any::<bool>()).prop_map(|(j, s)| {
            let t = 3.4028235677973366e38f64; // 2^128 - 2^103
            ((t.to_bits() as i64 + j) as u64) | ((s as u64) << 63)
        }),
        // f32 subnormal range and below
        2 => (any::<bool>(), 0x3680_0000_0000_0000u64..0x3810_0000_0000_0000u64).prop_map(|(s, m)| m | ((s as u64) << 63)),
        1 => prop_oneof![Just(f64::NAN.to_bits()), Just(f64::INFINITY.to_bits()), Just(f64::NEG_INFINITY.to_bits()), Just(0u64), Just(1u64 << 63)],
    ]
    .prop_map(|b| Case { src: Kind::F64, dst: Kind::F32, raw: b as i128 });
    ctx.prop("f64->f32", ctx.pick(300_000, 3_000_000), strat, check_dyn);

    ctx.explain("int->float compares bit patterns with the soft-float reference and checks the int->float->int round trip wherever the width fits the mantissa; float->int compares with trunc(x*2^(bits-1)).");
}
