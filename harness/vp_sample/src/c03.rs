//! C03 — sample and frame amplitude arithmetic, channel by channel.

use dasp_frame::Frame;
use dasp_sample::{Sample, I24, I48, U24, U48};
use proptest::prelude::*;
use serde::{Deserialize, Serialize};
use std::cell::RefCell;
use vp_core::fmt::{self, boundary_raws, Fmt, Kind, Val};
use vp_core::{ensure, CheckResult, Ctx, Stats};

pub const ALL_KINDS: [Kind; 14] = [
    Kind::Int { bits: 8, signed: true },
    Kind::Int { bits: 16, signed: true },
    Kind::Int { bits: 24, signed: true },
    Kind::Int { bits: 32, signed: true },
    Kind::Int { bits: 48, signed: true },
    Kind::Int { bits: 64, signed: true },
    Kind::Int { bits: 8, signed: false },
    Kind::Int { bits: 16, signed: false },
    Kind::Int { bits: 24, signed: false },
    Kind::Int { bits: 32, signed: false },
    Kind::Int { bits: 48, signed: false },
    Kind::Int { bits: 64, signed: false },
    Kind::F32,
    Kind::F64,
];

#[derive(Clone, Copy, Debug, PartialEq, Eq, Serialize, Deserialize)]
pub enum SOp {
    AddAmp,
    MulAmp,
    ToSigned,
    ToFloat,
}

/// values are integer raws or IEEE bit patterns (so that JSON round-trips exactly)
#[derive(Clone, Debug, Serialize, Deserialize)]
pub struct SCase {
    pub kind: Kind,
    pub op: SOp,
    pub s: i128,
    pub arg: i128,
}

pub fn enc(v: Val) -> i128 {
    match v {
        Val::I(r) => r,
        Val::F32(x) => x.to_bits() as i128,
        Val::F64(x) => x.to_bits() as i128,
    }
}
pub fn dec(k: Kind, e: i128) -> Val {
    match k {
        Kind::Int { .. } => Val::I(e),
        Kind::F32 => Val::F32(f32::from_bits(e as u32)),
        Kind::F64 => Val::F64(f64::from_bits(e as u64)),
    }
}

pub fn veq(a: Val, b: Val) -> bool {
    match (a, b) {
        (Val::I(x), Val::I(y)) => x == y,
        (Val::F32(x), Val::F32(y)) => x == y || (x.is_nan() && y.is_nan()),
        (Val::F64(x), Val::F64(y)) => x == y || (x.is_nan() && y.is_nan()),
        _ => false,
    }
}

// ------------------------------------------------------------------ reference (statement)

/// `None` = the mathematical result leaves the range (input outside the property's domain).
pub fn sample_ref(k: Kind, op: SOp, s: Val, arg: Val) -> Option<Val> {
    match op {
        SOp::ToSigned => fmt::conv(k, s, k.signed_companion()),
        SOp::ToFloat => fmt::conv(k, s, k.float_companion()),
        SOp::AddAmp => {
            let sg = k.signed_companion();
            let t = fmt::conv(k, s, sg)?;
            let sum = match (t, arg) {
                (Val::I(x), Val::I(a)) => {
                    let r = x + a;
                    if !sg.in_range_raw(r) {
                        return None;
                    }
                    Val::I(r)
                }
                (Val::F32(x), Val::F32(a)) => Val::F32(x + a),
                (Val::F64(x), Val::F64(a)) => Val::F64(x + a),
                _ => return None,
            };
            fmt::conv(sg, sum, k)
        }
        SOp::MulAmp => {
            let fl = k.float_companion();
            let f = fmt::conv(k, s, fl)?;
            let p = match (f, arg) {
                (Val::F32(x), Val::F32(g)) => Val::F32(x * g),
                (Val::F64(x), Val::F64(g)) => Val::F64(x * g),
                _ => return None,
            };
            // float -> int is defined on [-1, 1) only; conv returns None outside
            fmt::conv(fl, p, k)
        }
    }
}

// ------------------------------------------------------------------ the real sample ops

fn sample_op_t<S>(op: SOp, s: Val, arg: Val) -> Val
where
    S: Fmt,
    S::Signed: Fmt,
    S::Float: Fmt,
{
    let s = S::from_val(s);
    match op {
        SOp::AddAmp => s.add_amp(<S::Signed as Fmt>::from_val(arg)).to_val(),
        SOp::MulAmp => s.mul_amp(<S::Float as Fmt>::from_val(arg)).to_val(),
        SOp::ToSigned => s.to_signed_sample().to_val(),
        SOp::ToFloat => s.to_float_sample().to_val(),
    }
}

macro_rules! by_kind {
    ($k:expr, $f:ident $(::<$($extra:ty),*>)? ( $($arg:expr),* )) => {{
        let k: Kind = $k;
        if k == <i8 as Fmt>::KIND { $f::<i8 $($(, $extra)*)?>($($arg),*) }
        else if k == <i16 as Fmt>::KIND { $f::<i16 $($(, $extra)*)?>($($arg),*) }
        else if k == <I24 as Fmt>::KIND { $f::<I24 $($(, $extra)*)?>($($arg),*) }
        else if k == <i32 as Fmt>::KIND { $f::<i32 $($(, $extra)*)?>($($arg),*) }
        else if k == <I48 as Fmt>::KIND { $f::<I48 $($(, $extra)*)?>($($arg),*) }
        else if k == <i64 as Fmt>::KIND { $f::<i64 $($(, $extra)*)?>($($arg),*) }
        else if k == <u8 as Fmt>::KIND { $f::<u8 $($(, $extra)*)?>($($arg),*) }
        else if k == <u16 as Fmt>::KIND { $f::<u16 $($(, $extra)*)?>($($arg),*) }
        else if k == <U24 as Fmt>::KIND { $f::<U24 $($(, $extra)*)?>($($arg),*) }
        else if k == <u32 as Fmt>::KIND { $f::<u32 $($(, $extra)*)?>($($arg),*) }
        else if k == <U48 as Fmt>::KIND { $f::<U48 $($(, $extra)*)?>($($arg),*) }
        else if k == <u64 as Fmt>::KIND { $f::<u64 $($(, $extra)*)?>($($arg),*) }
        else if k == <f32 as Fmt>::KIND { $f::<f32 $($(, $extra)*)?>($($arg),*) }
        else { $f::<f64 $($(, $extra)*)?>($($arg),*) }
    }};
}

pub fn sample_op(k: Kind, op: SOp, s: Val, arg: Val) -> Val {
    by_kind!(k, sample_op_t(op, s, arg))
}

fn arg_kind(k: Kind, op: SOp) -> Kind {
    match op {
        SOp::AddAmp => k.signed_companion(),
        _ => k.float_companion(),
    }
}

pub fn check_sample(c: &SCase, st: &mut Stats) -> CheckResult {
    let k = c.kind;
    let s = dec(k, c.s);
    let ak = arg_kind(k, c.op);
    let arg = dec(ak, c.arg);
    if let Val::I(r) = s {
        ensure!(k.in_range_raw(r), "bad case: sample out of range");
    }
    if let Val::I(r) = arg {
        ensure!(ak.in_range_raw(r), "bad case: operand out of range of its own format");
    }
    let exp = sample_ref(k, c.op, s, arg).ok_or("bad case: mathematical result out of range (outside the property's domain)")?;
    let got = sample_op(k, c.op, s, arg);
    let unsigned_or_custom = matches!(k, Kind::Int { signed: false, .. } | Kind::Int { bits: 24, .. } | Kind::Int { bits: 48, .. });
    let on_boundary = matches!(s, Val::I(r) if r == k.min_raw() || r == k.max_raw()) || matches!(exp, Val::I(r) if r == k.min_raw() || r == k.max_raw());
    st.nt(unsigned_or_custom || on_boundary);
    st.class_if(unsigned_or_custom, "unsigned or custom-width format");
    st.class_if(on_boundary, "operand or result on a range boundary");
    ensure!(
        veq(got, exp),
        "{}: {:?}({:?}, {:?}) = {:?}, expected {:?} (native op on the signed/float conversion, converted back)",
        k.name(), c.op, s, arg, got, exp
    );
    // the identities, stated directly
    match (c.op, arg) {
        (SOp::AddAmp, Val::I(0)) => ensure!(veq(got, s), "{}: add_amp(0) changed {:?} into {:?}", k.name(), s, got),
        (SOp::AddAmp, Val::F32(a)) if a == 0.0 => ensure!(veq(got, s), "{}: add_amp(0.0) changed the sample", k.name()),
        (SOp::AddAmp, Val::F64(a)) if a == 0.0 => ensure!(veq(got, s), "{}: add_amp(0.0) changed the sample", k.name()),
        (SOp::MulAmp, g) => {
            let gz = matches!(g, Val::F32(x) if x == 0.0) || matches!(g, Val::F64(x) if x == 0.0);
            let g1 = matches!(g, Val::F32(x) if x == 1.0) || matches!(g, Val::F64(x) if x == 1.0);
            if gz {
                let eqv = match k {
                    Kind::Int { .. } => Val::I(k.eq_raw()),
                    Kind::F32 => Val::F32(0.0),
                    Kind::F64 => Val::F64(0.0),
                };
                ensure!(veq(got, eqv), "{}: mul_amp(0.0) of {:?} = {:?}, not equilibrium", k.name(), s, got);
                st.class("scale by 0");
            }
            if g1 {
                st.class("scale by 1");
                match (s, got) {
                    (Val::I(a), Val::I(b)) => {
                        let p = k.float_p();
                        if k.bits() <= p {
                            ensure!(a == b, "{}: mul_amp(1.0) changed {} into {}", k.name(), a, b);
                        } else {
                            let tol = 1i128 << (k.bits() - 1 - p);
                            ensure!((a - b).abs() <= tol, "{}: mul_amp(1.0) moved {} to {} (more than 2^{} LSB)", k.name(), a, b, k.bits() - 1 - p);
                        }
                    }
                    _ => ensure!(veq(got, s), "{}: mul_amp(1.0) changed the sample", k.name()),
                }
            }
        }
        _ => {}
    }
    Ok(())
}

// ------------------------------------------------------------------ generators (sample level)

fn finite_f32() -> impl Strategy<Value = f32> {
    prop_oneof![
        4 => -1.0f32..1.0,
        2 => -4.0f32..4.0,
        1 => proptest::sample::select(vec![0.0f32, -0.0, 1.0, -1.0, 0.5, 2.0, 1e-30, -1e-30, 0.99999994, f32::MIN_POSITIVE]),
        1 => any::<u32>().prop_map(f32::from_bits).prop_filter("finite", |x| x.is_finite() && x.abs() < 1e18),
    ]
}
fn finite_f64() -> impl Strategy<Value = f64> {
    prop_oneof![
        4 => -1.0f64..1.0,
        2 => -4.0f64..4.0,
        1 => proptest::sample::select(vec![0.0f64, -0.0, 1.0, -1.0, 0.5, 2.0, 1e-300, -1e-300, 0.9999999999999999, f64::MIN_POSITIVE]),
        1 => any::<u64>().prop_map(f64::from_bits).prop_filter("finite", |x| x.is_finite() && x.abs() < 1e150),
    ]
}

/// a sample value of kind `k`, encoded
pub fn sample_val(k: Kind) -> BoxedStrategy<i128> {
    match k {
        Kind::Int { .. } => {
            let (lo, hi) = (k.min_raw(), k.max_raw());
            let b = boundary_raws(k);
            prop_oneof![
                3 => lo..=hi,
                2 => proptest::sample::select(b),
                1 => (lo..=hi, 0u32..60).prop_map(move |(x, s)| k.eq_raw() + ((x - k.eq_raw()) >> s)),
            ]
            .boxed()
        }
        Kind::F32 => finite_f32().prop_map(|x| x.to_bits() as i128).boxed(),
        Kind::F64 => finite_f64().prop_map(|x| x.to_bits() as i128).boxed(),
    }
}

fn gain_val(fl: Kind) -> BoxedStrategy<i128> {
    match fl {
        Kind::F32 => prop_oneof![
            3 => proptest::sample::select(vec![0.0f32, 1.0, -1.0, 0.5, 2.0, -0.0, 0.25, -0.5, 1e-8, -1e-8, 5.9604645e-8, 1e-20]),
            3 => -4.0f32..4.0,
            1 => -1.0f32..1.0,
        ]
        .prop_map(|x| x.to_bits() as i128)
        .boxed(),
        _ => prop_oneof![
            3 => proptest::sample::select(vec![0.0f64, 1.0, -1.0, 0.5, 2.0, -0.0, 0.25, -0.5, 1e-8, -1e-8, 5.9604645e-8, 1e-20, 1e-300]),
            3 => -4.0f64..4.0,
            1 => -1.0f64..1.0,
        ]
        .prop_map(|x| x.to_bits() as i128)
        .boxed(),
    }
}

/// Make (s, arg) valid for `op` by construction: offsets are clamped into the valid window
/// (landing exactly on MIN/MAX when they were beyond it), gains are halved until the product
/// is inside [-1, 1).  Returns the repaired arg and whether a repair happened.
pub fn repair(k: Kind, op: SOp, s: Val, arg: Val) -> (Val, bool) {
    if sample_ref(k, op, s, arg).is_some() {
        return (arg, false);
    }
    match (op, arg) {
        (SOp::AddAmp, Val::I(a)) => {
            let sg = k.signed_companion();
            let t = match fmt::conv(k, s, sg) {
                Some(Val::I(t)) => t,
                _ => return (Val::I(0), true),
            };
            let a2 = a.clamp((sg.min_raw() - t).max(sg.min_raw()), (sg.max_raw() - t).min(sg.max_raw()));
            (Val::I(a2), true)
        }
        (SOp::MulAmp, Val::F32(mut g)) => {
            for _ in 0..200 {
                g *= 0.5;
                if sample_ref(k, op, s, Val::F32(g)).is_some() {
                    return (Val::F32(g), true);
                }
            }
            (Val::F32(0.0), true)
        }
        (SOp::MulAmp, Val::F64(mut g)) => {
            for _ in 0..1200 {
                g *= 0.5;
                if sample_ref(k, op, s, Val::F64(g)).is_some() {
                    return (Val::F64(g), true);
                }
            }
            (Val::F64(0.0), true)
        }
        _ => (arg, false),
    }
}

fn offset_val(k: Kind) -> BoxedStrategy<i128> {
    let sg = k.signed_companion();
    match sg {
        Kind::Int { .. } => {
            let (lo, hi) = (sg.min_raw(), sg.max_raw());
            prop_oneof![
                2 => proptest::sample::select(vec![0i128, 1, -1, 2, -2]),
                3 => lo..=hi, // mostly beyond the valid window: repaired to land exactly on MIN / MAX
                2 => (lo..=hi, 0u32..62).prop_map(|(x, s)| x >> s),
            ]
            .boxed()
        }
        _ => sample_val(sg),
    }
}

fn scase() -> impl Strategy<Value = SCase> {
    (0usize..14, 0usize..4).prop_flat_map(|(ki, oi)| {
        let k = ALL_KINDS[ki];
        let op = [SOp::AddAmp, SOp::MulAmp, SOp::ToSigned, SOp::ToFloat][oi];
        let argk = arg_kind(k, op);
        let a: BoxedStrategy<i128> = match op {
            SOp::AddAmp => offset_val(k),
            SOp::MulAmp => gain_val(argk),
            _ => Just(0i128).boxed(),
        };
        (sample_val(k), a).prop_map(move |(s, a)| {
            let (arg, _) = repair(k, op, dec(k, s), dec(argk, a));
            SCase { kind: k, op, s, arg: enc(arg) }
        })
    })
}

// ------------------------------------------------------------------ frame level

/// frame types under test: `[S; N]` and bare `S`
pub trait FrameX: Frame {
    fn from_vals(v: &[Val]) -> Self;
    fn to_vals(&self) -> Vec<Val>;
}
impl<S: Fmt, const N: usize> FrameX for [S; N] {
    fn from_vals(v: &[Val]) -> Self {
        core::array::from_fn(|i| S::from_val(v[i]))
    }
    fn to_vals(&self) -> Vec<Val> {
        self.iter().map(|s| s.to_val()).collect()
    }
}
macro_rules! mono_framex {
    ($($T:ty)*) => {$(
        impl FrameX for $T {
            fn from_vals(v: &[Val]) -> Self { <$T as Fmt>::from_val(v[0]) }
            fn to_vals(&self) -> Vec<Val> { vec![Fmt::to_val(*self)] }
        }
    )*};
}
mono_framex!(i8 i16 I24 i32 I48 i64 u8 u16 U24 u32 U48 u64 f32 f64);

#[derive(Clone, Debug, Serialize, Deserialize)]
pub struct FCase {
    pub kind: Kind,
    /// 0 = the bare sample used as a frame, otherwise the array width
    pub n: usize,
    pub chans: Vec<i128>,
    pub other: Vec<i128>,
    pub offsets: Vec<i128>,
    pub gains: Vec<i128>,
    pub offset: i128,
    pub gain: i128,
    pub iter_len: usize,
}

/// everything the frame operations returned, as dynamic values
#[derive(Default, Debug)]
struct FOut {
    channels_const: usize,
    equilibrium: Vec<Val>,
    from_fn: Vec<Val>,
    from_fn_order: Vec<usize>,
    from_samples: Option<Vec<Val>>,
    from_samples_consumed: usize,
    /// the same through iterators whose size_hint is (0, None) / (k < N, None)
    from_samples_nohint: Option<Vec<Val>>,
    from_samples_lowhint: Option<Vec<Val>>,
    /// polls made on an iterator that counts them and yields items again after its first None
    from_samples_polls: usize,
    from_samples_revive_is_some: bool,
    /// len() of the channels() iterator after it returned None, and again after a further next()
    channels_len_after_end: Vec<usize>,
    /// len() before each next()
    channels_len_before: Vec<usize>,
    /// a clone of the channels() iterator taken after k items: (k, what the clone yields, what the original yields, clone's len())
    channels_clone: Vec<(usize, Vec<Val>, Vec<Val>, usize)>,
    /// channels_mut().rev(): the values seen, and the frame after writing other[n-1-i] through it
    channels_mut_rev_seen: Vec<Val>,
    after_channels_mut_rev: Vec<Val>,
    /// alternating next() / next_back() on channels_mut()
    channels_mut_both_ends: Vec<Val>,
    channels: Vec<Val>,
    /// positional use of the channels() iterator: nth(k) then the rest, skip(k), step_by(2)
    channels_nth: Vec<(usize, Option<Val>, Vec<Val>)>,
    channels_skip: Vec<(usize, Vec<Val>)>,
    channels_step2: Vec<Val>,
    channels_ref: Vec<Val>,
    channels_ref_rev: Vec<Val>,
    after_channels_mut: Vec<Val>,
    channel: Vec<Option<Val>>,
    after_channel_mut: Vec<Val>,
    channel_mut_none_beyond: bool,
    map_same: Vec<Val>,
    map_args: Vec<Val>,
    map_float: Vec<Val>,
    zip_args: Vec<(Val, Val)>,
    zip_out: Vec<Val>,
    offset_amp: Vec<Val>,
    scale_amp: Vec<Val>,
    add_amp: Vec<Val>,
    mul_amp: Vec<Val>,
    to_signed: Vec<Val>,
    to_float: Vec<Val>,
}

fn frame_ops<F>(c: &FCase) -> FOut
where
    F: FrameX,
    F::Sample: Fmt,
    <F::Sample as Sample>::Signed: Fmt,
    <F::Sample as Sample>::Float: Fmt,
    F::Signed: FrameX,
    F::Float: FrameX,
    F::Channels: ExactSizeIterator + Clone,
{
    let k = <F::Sample as Fmt>::KIND;
    let sk = k.signed_companion();
    let fk = k.float_companion();
    let chans: Vec<Val> = c.chans.iter().map(|&e| dec(k, e)).collect();
    let other: Vec<Val> = c.other.iter().map(|&e| dec(k, e)).collect();
    let offsets: Vec<Val> = c.offsets.iter().map(|&e| dec(sk, e)).collect();
    let gains: Vec<Val> = c.gains.iter().map(|&e| dec(fk, e)).collect();
    let n = chans.len();
    let f = F::from_vals(&chans);
    let o = F::from_vals(&other);
    let mut out = FOut::default();
    out.channels_const = F::CHANNELS;
    out.equilibrium = F::EQUILIBRIUM.to_vals();
    // from_fn
    let order = RefCell::new(Vec::new());
    out.from_fn = F::from_fn(|i| {
        order.borrow_mut().push(i);
        <F::Sample as Fmt>::from_val(chans[i.min(n - 1)])
    })
    .to_vals();
    out.from_fn_order = order.into_inner();
    // from_samples on an iterator of iter_len items (cycled contents)
    let mut consumed = 0usize;
    {
        let mut it = (0..c.iter_len).map(|i| {
            consumed += 1;
            <F::Sample as Fmt>::from_val(chans[i % n])
        });
        out.from_samples = F::from_samples(&mut it).map(|fr| fr.to_vals());
    }
    out.from_samples_consumed = consumed;
    {
        struct Hint<I> {
            it: I,
            lower: usize,
        }
        impl<I: Iterator> Iterator for Hint<I> {
            type Item = I::Item;
            fn next(&mut self) -> Option<I::Item> {
                self.it.next()
            }
            fn size_hint(&self) -> (usize, Option<usize>) {
                (self.lower, None)
            }
        }
        let mk = |lower: usize| Hint { it: (0..c.iter_len).map(|i| <F::Sample as Fmt>::from_val(chans[i % n])), lower };
        out.from_samples_nohint = F::from_samples(&mut mk(0)).map(|fr| fr.to_vals());
        out.from_samples_lowhint = F::from_samples(&mut mk(c.iter_len.min(n.saturating_sub(1)))).map(|fr| fr.to_vals());
    }
    {
        // a non-fused iterator that counts how often it is polled
        struct Revive<S> {
            left: usize,
            dead: bool,
            polls: usize,
            item: S,
        }
        impl<S: Copy> Iterator for Revive<S> {
            type Item = S;
            fn next(&mut self) -> Option<S> {
                self.polls += 1;
                if self.left > 0 {
                    self.left -= 1;
                    Some(self.item)
                } else if !self.dead {
                    self.dead = true;
                    None
                } else {
                    Some(self.item)
                }
            }
        }
        let mut it = Revive { left: c.iter_len, dead: false, polls: 0, item: <F::Sample as Fmt>::from_val(chans[0]) };
        out.from_samples_revive_is_some = F::from_samples(&mut it).is_some();
        out.from_samples_polls = it.polls;
    }
    // channels
    let mut it = f.channels();
    loop {
        out.channels_len_before.push(it.len());
        match it.next() {
            Some(s) => out.channels.push(s.to_val()),
            None => break,
        }
        if out.channels.len() > n + 4 {
            break;
        }
    }
    out.channels_len_after_end.push(it.len());
    let _ = it.next();
    out.channels_len_after_end.push(it.len());
    for k in [0usize, 1, n / 2, n.saturating_sub(1), n, n + 2] {
        let mut it = f.channels();
        let got = it.nth(k).map(|s| s.to_val());
        let rest: Vec<Val> = it.take(n + 4).map(|s| s.to_val()).collect();
        out.channels_nth.push((k, got, rest));
        out.channels_skip.push((k, f.channels().skip(k).take(n + 4).map(|s| s.to_val()).collect()));
    }
    out.channels_step2 = f.channels().step_by(2).take(n + 4).map(|s| s.to_val()).collect();
    for k in [0usize, 1, n / 2, n] {
        let mut it = f.channels();
        for _ in 0..k.min(n) {
            let _ = it.next();
        }
        let cl = it.clone();
        let cl_len = cl.len();
        out.channels_clone.push((k.min(n), cl.take(n + 4).map(|s| s.to_val()).collect(), it.take(n + 4).map(|s| s.to_val()).collect(), cl_len));
    }
    {
        let mut g = f;
        for (i, s) in g.channels_mut().rev().enumerate() {
            out.channels_mut_rev_seen.push(s.to_val());
            *s = <F::Sample as Fmt>::from_val(other[(n - 1 - i.min(n - 1)).min(n - 1)]);
        }
        out.after_channels_mut_rev = g.to_vals();
        let mut g = f;
        let mut it = g.channels_mut();
        loop {
            match it.next() {
                Some(s) => out.channels_mut_both_ends.push(s.to_val()),
                None => break,
            }
            match it.next_back() {
                Some(s) => out.channels_mut_both_ends.push(s.to_val()),
                None => break,
            }
        }
    }
    out.channels_ref = f.channels_ref().map(|s| s.to_val()).collect();
    out.channels_ref_rev = f.channels_ref().rev().map(|s| s.to_val()).collect();
    // channels_mut: overwrite channel i with other[i]
    let mut g = f;
    for (i, s) in g.channels_mut().enumerate() {
        *s = <F::Sample as Fmt>::from_val(other[i.min(n - 1)]);
    }
    out.after_channels_mut = g.to_vals();
    // channel / channel_mut
    for i in 0..n + 3 {
        out.channel.push(f.channel(i).map(|s| s.to_val()));
    }
    let mut g = f;
    for i in 0..n {
        if i % 2 == 0 {
            if let Some(s) = g.channel_mut(i) {
                *s = <F::Sample as Fmt>::from_val(other[i]);
            }
        }
    }
    out.channel_mut_none_beyond = g.channel_mut(n).is_none() && g.channel_mut(n + 7).is_none();
    out.after_channel_mut = g.to_vals();
    // map to the same type: the closure records its arguments and returns other[k] on call k
    let args = RefCell::new(Vec::new());
    let r: F = f.map(|s| {
        let mut a = args.borrow_mut();
        let kidx = a.len();
        a.push(s.to_val());
        <F::Sample as Fmt>::from_val(other[kidx.min(n - 1)])
    });
    out.map_same = r.to_vals();
    out.map_args = args.into_inner();
    // map into the float companion
    let r: F::Float = f.map(|s| s.to_float_sample());
    out.map_float = r.to_vals();
    // zip_map
    let zargs = RefCell::new(Vec::new());
    let r: F = f.zip_map(o, |a, b| {
        let mut z = zargs.borrow_mut();
        let kidx = z.len();
        z.push((a.to_val(), b.to_val()));
        // return a's value on even calls, b's on odd calls
        if kidx % 2 == 0 {
            a
        } else {
            b
        }
    });
    out.zip_out = r.to_vals();
    out.zip_args = zargs.into_inner();
    // amplitude ops
    out.offset_amp = f.offset_amp(<<F::Sample as Sample>::Signed as Fmt>::from_val(dec(sk, c.offset))).to_vals();
    out.scale_amp = f.scale_amp(<<F::Sample as Sample>::Float as Fmt>::from_val(dec(fk, c.gain))).to_vals();
    out.add_amp = f.add_amp(<F::Signed as FrameX>::from_vals(&offsets)).to_vals();
    out.mul_amp = f.mul_amp(<F::Float as FrameX>::from_vals(&gains)).to_vals();
    out.to_signed = f.to_signed_frame().to_vals();
    out.to_float = f.to_float_frame().to_vals();
    out
}

fn frame_ops_n<S, const N: usize>(c: &FCase) -> FOut
where
    S: Fmt,
    S::Signed: Fmt,
    S::Float: Fmt,
{
    frame_ops::<[S; N]>(c)
}

fn frame_ops_mono<S>(c: &FCase) -> FOut
where
    S: Fmt + FrameX<Sample = S>,
    <S as Sample>::Signed: Fmt,
    <S as Sample>::Float: Fmt,
    <S as Frame>::Signed: FrameX,
    <S as Frame>::Float: FrameX,
    <S as Frame>::Channels: ExactSizeIterator + Clone,
{
    frame_ops::<S>(c)
}

/// formats instantiated for *every* width 1..=32
const FULL_WIDTH_KINDS: [Kind; 4] = [
    Kind::Int { bits: 8, signed: false },
    Kind::Int { bits: 16, signed: true },
    Kind::Int { bits: 48, signed: false },
    Kind::F32,
];
/// widths instantiated for *every* format
const ALL_FORMAT_WIDTHS: [usize; 4] = [1, 2, 5, 32];

pub fn instantiated(k: Kind, n: usize) -> bool {
    n == 0 || ALL_FORMAT_WIDTHS.contains(&n) || (FULL_WIDTH_KINDS.contains(&k) && (1..=32).contains(&n))
}

macro_rules! widths_full {
    ($S:ty, $c:expr, $n:expr) => {
        widths_full!(@go $S, $c, $n; 1 2 3 4 5 6 7 8 9 10 11 12 13 14 15 16 17 18 19 20 21 22 23 24 25 26 27 28 29 30 31 32)
    };
    (@go $S:ty, $c:expr, $n:expr; $($N:literal)*) => {
        match $n { $( $N => frame_ops_n::<$S, $N>($c), )* _ => unreachable!("width") }
    };
}
macro_rules! widths_some {
    ($S:ty, $c:expr, $n:expr) => {
        match $n {
            1 => frame_ops_n::<$S, 1>($c),
            2 => frame_ops_n::<$S, 2>($c),
            5 => frame_ops_n::<$S, 5>($c),
            32 => frame_ops_n::<$S, 32>($c),
            _ => unreachable!("width"),
        }
    };
}

fn run_frame_ops(c: &FCase) -> FOut {
    let k = c.kind;
    if c.n == 0 {
        return by_kind!(k, frame_ops_mono(c));
    }
    macro_rules! some { ($($T:ty),*) => { $( if k == <$T as Fmt>::KIND { return widths_some!($T, c, c.n); } )* }; }
    macro_rules! full { ($($T:ty),*) => { $( if k == <$T as Fmt>::KIND { return widths_full!($T, c, c.n); } )* }; }
    full!(u8, i16, U48, f32);
    some!(i8, I24, i32, I48, i64, u16, U24, u32, u64, f64);
    unreachable!()
}

fn veq_vec(a: &[Val], b: &[Val]) -> bool {
    a.len() == b.len() && a.iter().zip(b).all(|(x, y)| veq(*x, *y))
}

pub fn check_frame(c: &FCase, st: &mut Stats) -> CheckResult {
    let k = c.kind;
    let n = if c.n == 0 { 1 } else { c.n };
    ensure!(instantiated(k, c.n), "bad case: ({}, {}) is not instantiated", k.name(), c.n);
    ensure!(c.chans.len() == n && c.other.len() == n && c.offsets.len() == n && c.gains.len() == n, "bad case: wrong vector length");
    let sk = k.signed_companion();
    let fk = k.float_companion();
    let chans: Vec<Val> = c.chans.iter().map(|&e| dec(k, e)).collect();
    let other: Vec<Val> = c.other.iter().map(|&e| dec(k, e)).collect();
    let out = run_frame_ops(c);
    let unsigned_or_custom = matches!(k, Kind::Int { signed: false, .. } | Kind::Int { bits: 24, .. } | Kind::Int { bits: 48, .. });
    st.nt(unsigned_or_custom || n >= 5 || c.iter_len < n || c.n == 0);
    st.class_if(c.iter_len < n, "from_samples on a short iterator");
    st.class_if(c.n == 0, "bare sample as frame");
    st.class_if(n >= 5, "5 or more channels");
    let what = if c.n == 0 { format!("bare {}", k.name()) } else { format!("[{}; {}]", k.name(), n) };

    ensure!(out.channels_const == n, "{}: CHANNELS = {}", what, out.channels_const);
    let eqv = match k {
        Kind::Int { .. } => Val::I(k.eq_raw()),
        Kind::F32 => Val::F32(0.0),
        Kind::F64 => Val::F64(0.0),
    };
    ensure!(veq_vec(&out.equilibrium, &vec![eqv; n]), "{}: EQUILIBRIUM = {:?}", what, out.equilibrium);
    ensure!(veq_vec(&out.from_fn, &chans), "{}: from_fn placed {:?}, expected {:?}", what, out.from_fn, chans);
    ensure!(out.from_fn_order == (0..n).collect::<Vec<_>>(), "{}: from_fn called with indices {:?}", what, out.from_fn_order);
    if c.iter_len >= n {
        let exp: Vec<Val> = (0..n).map(|i| chans[i % n]).collect();
        match &out.from_samples {
            Some(v) => ensure!(veq_vec(v, &exp), "{}: from_samples gave {:?}, expected {:?}", what, v, exp),
            None => return Err(format!("{}: from_samples returned None on an iterator of {} >= {} items", what, c.iter_len, n)),
        }
        ensure!(out.from_samples_consumed == n, "{}: from_samples consumed {} items, expected exactly {}", what, out.from_samples_consumed, n);
        for (name, v) in [("(0, None)", &out.from_samples_nohint), ("(k < N, None)", &out.from_samples_lowhint)] {
            match v {
                Some(v) => ensure!(veq_vec(v, &exp), "{}: from_samples over an iterator with size_hint {} gave {:?}, expected {:?}", what, name, v, exp),
                None => return Err(format!("{}: from_samples returned None on an iterator that yields {} >= {} items but reports size_hint {}", what, c.iter_len, n, name)),
            }
        }
    } else {
        ensure!(out.from_samples_nohint.is_none() && out.from_samples_lowhint.is_none(), "{}: from_samples returned Some on a short iterator with an open-ended size_hint", what);
        ensure!(out.from_samples.is_none(), "{}: from_samples returned Some on an iterator of only {} items", what, c.iter_len);
    }
    // from_samples takes exactly N items, and gives up at the first None without polling the iterator again
    let exp_polls = if c.iter_len >= n { n } else { c.iter_len + 1 };
    ensure!(out.from_samples_revive_is_some == (c.iter_len >= n), "{}: from_samples over an iterator that ends after {} items returned {}", what, c.iter_len, if out.from_samples_revive_is_some { "Some" } else { "None" });
    ensure!(out.from_samples_polls == exp_polls, "{}: from_samples polled an iterator of {} items {} times, expected {} (N items, or up to and including the first None)", what, c.iter_len, out.from_samples_polls, exp_polls);
    ensure!(veq_vec(&out.channels, &chans), "{}: channels() yielded {:?}, expected {:?}", what, out.channels, chans);
    for (j, len) in out.channels_len_before.iter().enumerate() {
        ensure!(*len == n.saturating_sub(j), "{}: channels().len() = {} after {} of {} channels were yielded", what, len, j, n);
    }
    for (j, len) in out.channels_len_after_end.iter().enumerate() {
        ensure!(*len == 0, "{}: the exhausted channels() iterator reports len() = {}{}", what, len, if j == 1 { " after a further next()" } else { "" });
    }
    for (k, got, rest) in &out.channels_nth {
        let exp = chans.get(*k).copied();
        let same = match (got, exp) {
            (Some(a), Some(b)) => veq(*a, b),
            (None, None) => true,
            _ => false,
        };
        ensure!(same, "{}: channels().nth({}) = {:?}, expected {:?}", what, k, got, exp);
        let exp_rest: Vec<Val> = chans.iter().skip(k + 1).copied().collect();
        ensure!(veq_vec(rest, &exp_rest), "{}: after channels().nth({}) the iterator yields {:?}, expected the channels after it {:?}", what, k, rest, exp_rest);
    }
    for (k, got) in &out.channels_skip {
        let exp: Vec<Val> = chans.iter().skip(*k).copied().collect();
        ensure!(veq_vec(got, &exp), "{}: channels().skip({}) yields {:?}, expected {:?}", what, k, got, exp);
    }
    let exp: Vec<Val> = chans.iter().step_by(2).copied().collect();
    ensure!(veq_vec(&out.channels_step2, &exp), "{}: channels().step_by(2) yields {:?}, expected {:?}", what, out.channels_step2, exp);
    for (k, cl, orig, cl_len) in &out.channels_clone {
        let exp: Vec<Val> = chans[*k..].to_vec();
        ensure!(veq_vec(cl, &exp), "{}: a clone of channels() taken after {} items yields {:?}, expected the remaining channels {:?}", what, k, cl, exp);
        ensure!(veq_vec(orig, &exp), "{}: after being cloned at {} items the channels() iterator yields {:?}, expected {:?}", what, k, orig, exp);
        ensure!(*cl_len == n - k, "{}: a clone of channels() taken after {} of {} items reports len() = {}", what, k, n, cl_len);
    }
    let rev: Vec<Val> = chans.iter().rev().copied().collect();
    ensure!(veq_vec(&out.channels_mut_rev_seen, &rev), "{}: channels_mut().rev() visits {:?}, expected the channels in reverse {:?}", what, out.channels_mut_rev_seen, rev);
    ensure!(veq_vec(&out.after_channels_mut_rev, &other), "{}: writing other[N-1-i] through channels_mut().rev() leaves {:?}, expected {:?}", what, out.after_channels_mut_rev, other);
    {
        // next() / next_back() alternately: front, back, second, second-to-last, ... each channel exactly once
        let mut exp = Vec::new();
        let (mut lo, mut hi) = (0usize, n);
        while lo < hi {
            exp.push(chans[lo]);
            lo += 1;
            if lo < hi {
                hi -= 1;
                exp.push(chans[hi]);
            }
        }
        ensure!(veq_vec(&out.channels_mut_both_ends, &exp), "{}: alternating next() / next_back() on channels_mut() visits {:?}, expected {:?}", what, out.channels_mut_both_ends, exp);
    }
    ensure!(veq_vec(&out.channels_ref, &chans), "{}: channels_ref() yielded {:?}", what, out.channels_ref);
    let rev: Vec<Val> = chans.iter().rev().copied().collect();
    ensure!(veq_vec(&out.channels_ref_rev, &rev), "{}: channels_ref().rev() yielded {:?}", what, out.channels_ref_rev);
    ensure!(veq_vec(&out.after_channels_mut, &other), "{}: writing through channels_mut() gave {:?}, expected {:?}", what, out.after_channels_mut, other);
    for i in 0..n + 3 {
        match (out.channel[i], i < n) {
            (Some(v), true) => ensure!(veq(v, chans[i]), "{}: channel({}) = {:?}, expected {:?}", what, i, v, chans[i]),
            (None, false) => {}
            (g, _) => return Err(format!("{}: channel({}) = {:?} with {} channels", what, i, g, n)),
        }
    }
    let exp: Vec<Val> = (0..n).map(|i| if i % 2 == 0 { other[i] } else { chans[i] }).collect();
    ensure!(veq_vec(&out.after_channel_mut, &exp), "{}: writing through channel_mut() gave {:?}, expected {:?}", what, out.after_channel_mut, exp);
    ensure!(out.channel_mut_none_beyond, "{}: channel_mut(i >= N) was not None", what);
    ensure!(veq_vec(&out.map_args, &chans), "{}: map called its closure with {:?}, expected the channels in order {:?}", what, out.map_args, chans);
    ensure!(veq_vec(&out.map_same, &other), "{}: map placed results {:?}, expected {:?}", what, out.map_same, other);
    ensure!(out.zip_args.len() == n, "{}: zip_map called its closure {} times", what, out.zip_args.len());
    for i in 0..n {
        ensure!(veq(out.zip_args[i].0, chans[i]) && veq(out.zip_args[i].1, other[i]), "{}: zip_map call {} got {:?}, expected ({:?}, {:?})", what, i, out.zip_args[i], chans[i], other[i]);
    }
    let exp: Vec<Val> = (0..n).map(|i| if i % 2 == 0 { chans[i] } else { other[i] }).collect();
    ensure!(veq_vec(&out.zip_out, &exp), "{}: zip_map placed {:?}, expected {:?}", what, out.zip_out, exp);

    // amplitude ops: channel i == the sample operation on channel i (real dasp sample op,
    // itself checked against the reference at the sample level), and == the reference
    let per = |op: SOp, args: &dyn Fn(usize) -> Val, got: &Vec<Val>, name: &str| -> CheckResult {
        ensure!(got.len() == n, "{}: {} returned {} channels", what, name, got.len());
        for i in 0..n {
            let exp_s = sample_op(k, op, chans[i], args(i));
            ensure!(veq(got[i], exp_s), "{}: {} channel {} = {:?}, but the sample operation on that channel gives {:?}", what, name, i, got[i], exp_s);
            let exp_r = sample_ref(k, op, chans[i], args(i)).ok_or("bad case: out of range")?;
            ensure!(veq(got[i], exp_r), "{}: {} channel {} = {:?}, reference {:?}", what, name, i, got[i], exp_r);
        }
        Ok(())
    };
    let off = dec(sk, c.offset);
    let gain = dec(fk, c.gain);
    per(SOp::AddAmp, &|_| off, &out.offset_amp, "offset_amp")?;
    per(SOp::MulAmp, &|_| gain, &out.scale_amp, "scale_amp")?;
    per(SOp::AddAmp, &|i| dec(sk, c.offsets[i]), &out.add_amp, "add_amp")?;
    per(SOp::MulAmp, &|i| dec(fk, c.gains[i]), &out.mul_amp, "mul_amp")?;
    per(SOp::ToSigned, &|_| Val::I(0), &out.to_signed, "to_signed_frame")?;
    per(SOp::ToFloat, &|_| Val::I(0), &out.to_float, "to_float_frame")?;
    per(SOp::ToFloat, &|_| Val::I(0), &out.map_float, "map(to_float_sample)")?;
    Ok(())
}

/// proptest strategy for one (kind, n) instantiation: distinct channel contents, valid operands
fn fcase(k: Kind, n_tag: usize) -> impl Strategy<Value = FCase> {
    let n = if n_tag == 0 { 1 } else { n_tag };
    let sk = k.signed_companion();
    let fk = k.float_companion();
    (
        proptest::collection::vec(sample_val(k), n),
        proptest::collection::vec(sample_val(k), n),
        proptest::collection::vec(offset_val(k), n),
        proptest::collection::vec(gain_val(fk), n),
        offset_val(k),
        gain_val(fk),
        0usize..(n + 4),
        any::<bool>(),
        0u8..8,
    )
        .prop_map(move |(mut chans, mut other, offsets, gains, offset, gain, il, short, dup)| {
            // make channels pairwise distinct so a permutation is visible (integers only; the
            // amplitude grid of 8-bit formats has 256 points >= 32 channels)
            if k.is_int() {
                let mut seen = std::collections::BTreeSet::new();
                for c in chans.iter_mut() {
                    let mut v = *c;
                    while !seen.insert(v) {
                        v = if v >= k.max_raw() { k.min_raw() } else { v + 1 };
                    }
                    *c = v;
                }
            }
            // one case in four has equal neighbours instead: [a, a, b, b, ..] (dup = 0) or one value throughout (dup = 1); a
            // per-channel operation must not care what the neighbouring channel holds
            if dup == 0 {
                for j in (1..chans.len()).step_by(2) {
                    chans[j] = chans[j - 1];
                }
            } else if dup == 1 {
                let first = chans[0];
                for c in chans.iter_mut() {
                    *c = first;
                }
            } else if dup == 2 {
                // every other channel silent in BOTH frames (a closure is still called for it, whatever it returns)
                let eq = match k {
                    Kind::Int { .. } => k.eq_raw(),
                    Kind::F32 => 0.0f32.to_bits() as i128,
                    Kind::F64 => 0.0f64.to_bits() as i128,
                };
                for j in (0..chans.len()).step_by(2) {
                    chans[j] = eq;
                    other[j] = eq;
                }
            }
            // frame-wide scalar operands must be valid for every channel: repair against each
            let mut off = dec(sk, offset);
            let mut g = dec(fk, gain);
            for _ in 0..2 {
                for &c in &chans {
                    off = repair(k, SOp::AddAmp, dec(k, c), off).0;
                    g = repair(k, SOp::MulAmp, dec(k, c), g).0;
                }
            }
            let offsets: Vec<i128> = offsets.iter().zip(&chans).map(|(&o, &c)| enc(repair(k, SOp::AddAmp, dec(k, c), dec(sk, o)).0)).collect();
            let gains: Vec<i128> = gains.iter().zip(&chans).map(|(&gg, &c)| enc(repair(k, SOp::MulAmp, dec(k, c), dec(fk, gg)).0)).collect();
            let iter_len = if short { il % n.max(1) } else { n + il % 4 };
            FCase { kind: k, n: n_tag, chans, other, offsets, gains, offset: enc(off), gain: enc(g), iter_len }
        })
}

pub fn run(ctx: &mut Ctx) {
    ctx.set_rule(
        "sample level: (format, operation, sample, offset-or-gain) with the operand repaired by construction so that the mathematical result stays in range \
         (offsets beyond the window land exactly on MIN/MAX, gains are halved); 8/16-bit formats exhaustively against identity operands; \
         frame level: (format, width N, channel contents pairwise distinct in three cases out of four and with equal neighbours in the fourth, second frame, per-channel and scalar operands, iterator length); \
         every width 1..=32 for u8, i16, U48, f32, widths 1, 2, 5, 32 and the bare-sample frame for all 14 formats; \
         non-trivial: unsigned or custom-width format, or operand/result on a range boundary (sample level); unsigned/custom format, N >= 5, short iterator or bare sample (frame level)",
    );
    ctx.assume("reference for add_amp/mul_amp = reference conversion to the Signed/Float companion, native + or * there, reference conversion back (the statement); float formats compare with == on finite inputs (-0.0 == 0.0 accepted)");
    ctx.assume("array frames are generic over (S, N); all 32 widths are instantiated for four formats of sizes 1/2/8/4 bytes and four widths for every format, not the full 14 x 32 product (compile time)");
    ctx.require_class("from_samples on a short iterator");
    ctx.require_class("bare sample as frame");
    ctx.require_class("scale by 0");
    ctx.require_class("scale by 1");

    // sample level, random + boundary
    ctx.prop("sample/random", ctx.pick(400_000, 6_000_000), scase(), check_sample);

    // sample level, exhaustive identities for the 8/16-bit formats
    let small: Vec<Kind> = ALL_KINDS.iter().copied().filter(|k| k.is_int() && k.bits() <= 16).collect();
    let mut offs = vec![0u64];
    for k in &small {
        offs.push(offs.last().unwrap() + (1u64 << k.bits()) * 8);
    }
    let total = *offs.last().unwrap();
    let small2 = small.clone();
    ctx.par_enumerate(
        "sample/exhaustive-8-16-identities",
        true,
        total,
        move |i| {
            let j = offs.partition_point(|&o| o <= i) - 1;
            let k = small2[j];
            let r = i - offs[j];
            let s = k.min_raw() + (r / 8) as i128;
            let fl = k.float_companion();
            let g = |x: f32| if fl == Kind::F32 { x.to_bits() as i128 } else { (x as f64).to_bits() as i128 };
            let sg = k.signed_companion();
            let t = match fmt::conv(k, Val::I(s), sg) { Some(Val::I(t)) => t, _ => 0 };
            let (op, arg) = match r % 8 {
                0 => (SOp::AddAmp, 0),
                1 => (SOp::AddAmp, (sg.max_raw() - t).min(sg.max_raw())), // lands exactly on MAX (or as close as one offset can)
                2 => (SOp::AddAmp, (sg.min_raw() - t).max(sg.min_raw())), // lands exactly on MIN
                3 => (SOp::MulAmp, g(0.0)),
                4 => (SOp::MulAmp, g(1.0)),
                5 => (SOp::MulAmp, g(0.5)),
                6 => (SOp::ToSigned, 0),
                _ => (SOp::ToFloat, 0),
            };
            SCase { kind: k, op, s, arg }
        },
        check_sample,
    );

    // scaling by exactly 1.0 and offsetting by exactly 0 at the very ends of every integer range: the float image of the
    // last few values of a format wider than its Float's mantissa is 1.0 itself, which the general check leaves out (it is
    // outside the float->int domain); the statement still demands "the same sample ... within that float precision"
    #[derive(Clone, Debug, Serialize, Deserialize)]
    struct EndCase {
        kind: Kind,
        raw: i128,
    }
    let mut cases = Vec::new();
    for &k in ALL_KINDS.iter().filter(|k| k.is_int()) {
        for d in 0..300i128 {
            if k.in_range_raw(k.max_raw() - d) && k.in_range_raw(k.min_raw() + d) {
                cases.push(EndCase { kind: k, raw: k.max_raw() - d });
                cases.push(EndCase { kind: k, raw: k.min_raw() + d });
            }
        }
    }
    ctx.enumerate("sample/identity-at-the-range-ends", true, cases.into_iter(), |c: &EndCase, st: &mut Stats| {
        st.nt(true);
        let k = c.kind;
        ensure!(k.in_range_raw(c.raw), "bad case: raw out of range");
        let fl = k.float_companion();
        let one = if fl == Kind::F32 { Val::F32(1.0) } else { Val::F64(1.0) };
        let got = sample_op(k, SOp::MulAmp, Val::I(c.raw), one);
        let g = match got {
            Val::I(g) => g,
            _ => return Err("non-integer result".into()),
        };
        // allowed deviation: one unit of the Float's precision at full scale (0 when the format fits the mantissa)
        let tol: i128 = if k.bits() <= fl.float_p() { 0 } else { 1i128 << (k.bits() - fl.float_p()) };
        ensure!((g - c.raw).abs() <= tol, "{}: {} scaled by 1.0 gives {}, more than {} away (the float companion has {} significant bits)", k.name(), c.raw, g, tol, fl.float_p());
        let zero = Val::I(0);
        let o = sample_op(k, SOp::AddAmp, Val::I(c.raw), zero);
        ensure!(o == Val::I(c.raw), "{}: {} offset by 0 gives {:?}", k.name(), c.raw, o);
        Ok(())
    });

    // frame level
    let per = ctx.pick(400u32, 4000);
    for &k in &ALL_KINDS {
        let mut widths: Vec<usize> = vec![0];
        if FULL_WIDTH_KINDS.contains(&k) {
            widths.extend(1..=32);
        } else {
            widths.extend(ALL_FORMAT_WIDTHS);
        }
        for n in widths {
            let sub = format!("frame/{}x{}", k.name(), n);
            ctx.prop(&sub, per, fcase(k, n), check_frame);
        }
    }
}
