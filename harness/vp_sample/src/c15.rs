//! C15 — custom-width integer sample types never silently leave their range.
//!
//! Run twice by the driver: harness profile `release` (debug assertions + overflow checks ON:
//! overflow must panic) and profile `nodebug` (both OFF: result must be wrapped modulo 2^bits).

use dasp_sample::types::{I11, I20, I24, I48, U11, U20, U24, U48};
use proptest::prelude::*;
use serde::{Deserialize, Serialize};
use std::ops::{Add, Mul, Sub};
use vp_core::{ensure, pan, CheckResult, Ctx, Stats};

#[derive(Clone, Copy, Debug, PartialEq, Eq, Serialize, Deserialize)]
pub enum Ty {
    I11,
    U11,
    I20,
    U20,
    I24,
    U24,
    I48,
    U48,
}
pub const TYS: [Ty; 8] = [Ty::I11, Ty::U11, Ty::I20, Ty::U20, Ty::I24, Ty::U24, Ty::I48, Ty::U48];

#[derive(Clone, Copy, Debug, PartialEq, Eq, Serialize, Deserialize)]
pub enum Op {
    Add,
    Sub,
    Mul,
    Neg,
    New,
    FromRep,
    Cmp,
}

#[derive(Clone, Debug, Serialize, Deserialize)]
pub struct Case {
    pub ty: Ty,
    pub op: Op,
    pub a: i128,
    pub b: i128,
}

impl Ty {
    pub fn bits(self) -> u32 {
        match self {
            Ty::I11 | Ty::U11 => 11,
            Ty::I20 | Ty::U20 => 20,
            Ty::I24 | Ty::U24 => 24,
            Ty::I48 | Ty::U48 => 48,
        }
    }
    pub fn signed(self) -> bool {
        matches!(self, Ty::I11 | Ty::I20 | Ty::I24 | Ty::I48)
    }
    pub fn min(self) -> i128 {
        if self.signed() {
            -(1i128 << (self.bits() - 1))
        } else {
            0
        }
    }
    pub fn max(self) -> i128 {
        self.min() + (1i128 << self.bits()) - 1
    }
    pub fn total(self) -> i128 {
        1i128 << self.bits()
    }
    pub fn rep_bits(self) -> u32 {
        match self.bits() {
            11 => 16,
            48 => 64,
            _ => 32,
        }
    }
    pub fn rep_min(self) -> i128 {
        -(1i128 << (self.rep_bits() - 1))
    }
    pub fn rep_max(self) -> i128 {
        (1i128 << (self.rep_bits() - 1)) - 1
    }
    pub fn in_range(self, v: i128) -> bool {
        v >= self.min() && v <= self.max()
    }
    /// v wrapped modulo 2^bits into [MIN, MAX]
    pub fn wrap(self, v: i128) -> i128 {
        (v - self.min()).rem_euclid(self.total()) + self.min()
    }
    pub fn has_neg(self) -> bool {
        matches!(self, Ty::I11 | Ty::I24 | Ty::I48)
    }
}

/// typed access
trait Custom: Copy + std::fmt::Debug + Ord + Add<Output = Self> + Sub<Output = Self> + Mul<Output = Self> + 'static {
    fn new_(v: i128) -> Option<Self>;
    fn from_rep(v: i128) -> Self;
    fn unchecked(v: i128) -> Self;
    fn inner_(self) -> i128;
    fn neg_(self) -> Option<Self>;
}
macro_rules! custom {
    ($($T:ident, $Rep:ty, $neg:expr;)*) => {$(
        impl Custom for $T {
            fn new_(v: i128) -> Option<Self> { $T::new(v as $Rep) }
            fn from_rep(v: i128) -> Self { $T::from(v as $Rep) }
            fn unchecked(v: i128) -> Self { $T::new_unchecked(v as $Rep) }
            fn inner_(self) -> i128 { self.inner() as i128 }
            fn neg_(self) -> Option<Self> { $neg(self) }
        }
    )*};
}
custom! {
    I11, i16, |x: I11| Some(-x);
    U11, i16, |_x: U11| None;
    I20, i32, |_x: I20| None;
    U20, i32, |_x: U20| None;
    I24, i32, |x: I24| Some(-x);
    U24, i32, |_x: U24| None;
    I48, i64, |x: I48| Some(-x);
    U48, i64, |_x: U48| None;
}

macro_rules! dispatch {
    ($ty:expr, $f:ident, $($arg:expr),*) => {
        match $ty {
            Ty::I11 => $f::<I11>($($arg),*),
            Ty::U11 => $f::<U11>($($arg),*),
            Ty::I20 => $f::<I20>($($arg),*),
            Ty::U20 => $f::<U20>($($arg),*),
            Ty::I24 => $f::<I24>($($arg),*),
            Ty::U24 => $f::<U24>($($arg),*),
            Ty::I48 => $f::<I48>($($arg),*),
            Ty::U48 => $f::<U48>($($arg),*),
        }
    };
}

fn check_typed<T: Custom>(c: &Case, st: &mut Stats) -> CheckResult {
    let ty = c.ty;
    let debug = cfg!(debug_assertions);
    match c.op {
        Op::New => {
            ensure!(c.a >= ty.rep_min() && c.a <= ty.rep_max(), "bad case: value does not fit the backing integer");
            let got = T::new_(c.a);
            st.nt(!ty.in_range(c.a) || c.a == ty.min() || c.a == ty.max());
            st.class_if(!ty.in_range(c.a), "new: out of range");
            if ty.in_range(c.a) {
                ensure!(got.map(|g| g.inner_()) == Some(c.a), "{:?}::new({}) = {:?}, expected Some", ty, c.a, got);
            } else {
                ensure!(got.is_none(), "{:?}::new({}) = {:?}, expected None (range is [{}, {}])", ty, c.a, got, ty.min(), ty.max());
            }
        }
        Op::FromRep => {
            ensure!(c.a >= ty.rep_min() && c.a <= ty.rep_max(), "bad case: value does not fit the backing integer");
            let got = T::from_rep(c.a).inner_();
            st.nt(!ty.in_range(c.a));
            st.class_if((c.a - ty.wrap(c.a)).abs() > ty.total(), "from: multi-wrap");
            ensure!(got == ty.wrap(c.a), "{:?}::from({}) has inner {}, expected {} (wrapped modulo 2^{})", ty, c.a, got, ty.wrap(c.a), ty.bits());
        }
        Op::Cmp => {
            ensure!(ty.in_range(c.a) && ty.in_range(c.b), "bad case: operand out of range");
            let (x, y) = (T::unchecked(c.a), T::unchecked(c.b));
            st.nt(c.a != c.b);
            ensure!(x.cmp(&y) == c.a.cmp(&c.b), "{:?}: cmp({}, {}) = {:?}", ty, c.a, c.b, x.cmp(&y));
            ensure!((x == y) == (c.a == c.b), "{:?}: eq({}, {}) wrong", ty, c.a, c.b);
            ensure!((x < y) == (c.a < c.b) && (x <= y) == (c.a <= c.b), "{:?}: lt/le({}, {}) wrong", ty, c.a, c.b);
        }
        Op::Add | Op::Sub | Op::Mul | Op::Neg => {
            ensure!(ty.in_range(c.a) && ty.in_range(c.b), "bad case: operand out of range");
            if c.op == Op::Neg && !ty.has_neg() {
                return Ok(());
            }
            let (x, y) = (T::unchecked(c.a), T::unchecked(c.b));
            let exact = match c.op {
                Op::Add => c.a + c.b,
                Op::Sub => c.a - c.b,
                Op::Mul => c.a * c.b,
                _ => -c.a,
            };
            let got = pan::catch(|| match c.op {
                Op::Add => x + y,
                Op::Sub => x - y,
                Op::Mul => x * y,
                _ => x.neg_().unwrap(),
            });
            let overflow = !ty.in_range(exact);
            st.nt(overflow || c.a == ty.min() || c.a == ty.max() || c.b == ty.min() || c.b == ty.max());
            st.class_if(overflow, "exact result out of range");
            st.class_if(overflow && (exact - ty.wrap(exact)).abs() > ty.total(), "multi-wrap overflow");
            match got {
                Ok(r) => {
                    let r = r.inner_();
                    ensure!(
                        ty.in_range(r),
                        "{:?}: {:?}({}, {}) returned inner {} outside [{}, {}] ({} build)",
                        ty, c.op, c.a, c.b, r, ty.min(), ty.max(), if debug { "debug-assertion" } else { "release" }
                    );
                    if debug {
                        ensure!(!overflow, "{:?}: {:?}({}, {}) overflowed (exact {}) but returned {} instead of panicking in a debug-assertion build", ty, c.op, c.a, c.b, exact, r);
                        ensure!(r == exact, "{:?}: {:?}({}, {}) = {}, expected {}", ty, c.op, c.a, c.b, r, exact);
                    } else {
                        ensure!(r == ty.wrap(exact), "{:?}: {:?}({}, {}) = {}, expected {} (exact {} wrapped modulo 2^{})", ty, c.op, c.a, c.b, r, ty.wrap(exact), exact, ty.bits());
                    }
                }
                Err(p) => {
                    ensure!(debug, "{:?}: {:?}({}, {}) panicked in a build without debug assertions: {}", ty, c.op, c.a, c.b, p);
                    ensure!(overflow, "{:?}: {:?}({}, {}) panicked although the exact result {} is in range: {}", ty, c.op, c.a, c.b, exact, p);
                }
            }
        }
    }
    Ok(())
}

pub fn check(c: &Case, st: &mut Stats) -> CheckResult {
    dispatch!(c.ty, check_typed, c, st)
}

// ------------------------------------------------------------------ widening From impls

#[derive(Clone, Debug, Serialize, Deserialize)]
pub struct WidenCase {
    pub impl_idx: usize,
    pub v: i128,
}

struct Widen {
    name: &'static str,
    lo: i128,
    hi: i128,
    f: fn(i128) -> i128,
}

macro_rules! widen_prim {
    ($T:ident, $U:ty) => {
        Widen { name: concat!(stringify!($T), "::from(", stringify!($U), ")"), lo: <$U>::MIN as i128, hi: <$U>::MAX as i128,
                f: |v| $T::from(v as $U).inner() as i128 }
    };
}
macro_rules! widen_custom {
    ($T:ident, $U:ident, $lo:expr, $hi:expr, $Rep:ty) => {
        Widen { name: concat!(stringify!($T), "::from(", stringify!($U), ")"), lo: $lo, hi: $hi,
                f: |v| $T::from($U::new_unchecked(v as $Rep)).inner() as i128 }
    };
}

fn widenings() -> Vec<Widen> {
    vec![
        widen_prim!(I11, i8), widen_prim!(I11, u8),
        widen_prim!(I20, i8), widen_custom!(I20, I11, -1024, 1023, i16), widen_prim!(I20, i16), widen_prim!(I20, u8), widen_custom!(I20, U11, 0, 2047, i16), widen_prim!(I20, u16),
        widen_prim!(I24, i8), widen_prim!(I24, i16), widen_custom!(I24, I20, -524_288, 524_287, i32), widen_prim!(I24, u8), widen_prim!(I24, u16), widen_custom!(I24, U20, 0, 1_048_575, i32),
        widen_prim!(I48, i8), widen_prim!(I48, i16), widen_custom!(I48, I20, -524_288, 524_287, i32), widen_custom!(I48, I24, -8_388_608, 8_388_607, i32), widen_prim!(I48, i32),
        widen_prim!(I48, u8), widen_prim!(I48, u16), widen_custom!(I48, U20, 0, 1_048_575, i32), widen_custom!(I48, U24, 0, 16_777_215, i32), widen_prim!(I48, u32),
        widen_prim!(U11, u8),
        widen_prim!(U20, u8), widen_prim!(U20, u16),
        widen_prim!(U24, u8), widen_prim!(U24, u16), widen_custom!(U24, U20, 0, 1_048_575, i32),
        widen_prim!(U48, u8), widen_prim!(U48, u16), widen_custom!(U48, U20, 0, 1_048_575, i32), widen_custom!(U48, U24, 0, 16_777_215, i32), widen_prim!(U48, u32),
    ]
}

// ------------------------------------------------------------------ generators

fn boundary_operands(ty: Ty) -> Vec<i128> {
    let mut v = Vec::new();
    for d in 0..4 {
        v.push(ty.min() + d);
        v.push(ty.max() - d);
        v.push(d);
        v.push(-d);
        v.push(ty.total() / 2 + d);
        v.push(ty.total() / 2 - d);
    }
    for k in 0..ty.bits() {
        for s in [-1i128, 1] {
            for d in [-1i128, 0, 1] {
                v.push(s * (1i128 << k) + d);
            }
        }
    }
    // square-root scale (multiplication overflows by a little)
    let r = (ty.max() as f64).sqrt() as i128;
    for d in -2..=2 {
        v.push(r + d);
        v.push(-(r + d));
    }
    v.retain(|&x| ty.in_range(x));
    v.sort();
    v.dedup();
    v
}

fn boundary_reps(ty: Ty) -> Vec<i128> {
    let mut v = Vec::new();
    for d in -3..=3 {
        for base in [ty.min(), ty.max(), 0, ty.total(), -ty.total(), 2 * ty.total(), -2 * ty.total(), ty.rep_min(), ty.rep_max(), ty.rep_max() - ty.total(), ty.rep_min() + ty.total()] {
            v.push(base + d);
        }
    }
    v.retain(|&x| x >= ty.rep_min() && x <= ty.rep_max());
    v.sort();
    v.dedup();
    v
}

fn operand(ty: Ty) -> impl Strategy<Value = i128> {
    let b = boundary_operands(ty);
    let (lo, hi) = (ty.min(), ty.max());
    prop_oneof![
        3 => lo..=hi,
        2 => proptest::sample::select(b),
        2 => (-2048i128..=2048).prop_map(move |x| x.clamp(lo, hi)),
        1 => (lo..=hi, 0u32..48).prop_map(move |(x, s)| (x >> s).clamp(lo, hi)),
    ]
}

fn wide_op_case() -> impl Strategy<Value = Case> {
    (2usize..8, 0usize..4).prop_flat_map(|(ti, oi)| {
        let ty = TYS[ti];
        let op = [Op::Add, Op::Sub, Op::Mul, Op::Neg][oi];
        (operand(ty), operand(ty), 0u8..6, -3i128..=3).prop_map(move |(a, b0, mode, d)| {
            // bias toward overflow by a little / by k*TOTAL
            let b = match (op, mode) {
                (Op::Add, 0) => (ty.max() - a + 1 + d).clamp(ty.min(), ty.max()),
                (Op::Add, 1) => (ty.min() - a - 1 + d).clamp(ty.min(), ty.max()),
                (Op::Sub, 0) => (a - ty.max() - 1 + d).clamp(ty.min(), ty.max()),
                (Op::Sub, 1) => (a - ty.min() + 1 + d).clamp(ty.min(), ty.max()),
                (Op::Mul, 0) if a != 0 => ((ty.max() + 1) / a + d).clamp(ty.min(), ty.max()),
                (Op::Mul, 1) if a != 0 => ((3 * ty.total()) / a + d).clamp(ty.min(), ty.max()),
                _ => b0,
            };
            Case { ty, op, a, b }
        })
    })
}

pub fn run(ctx: &mut Ctx) {
    let debug = cfg!(debug_assertions);
    if (ctx.part == "debug-assertions") != debug && !ctx.part.is_empty() {
        ctx.inconclusive("harness binary was built with the wrong debug-assertion configuration for this part");
        return;
    }
    ctx.set_rule(
        "cases are (type, operation, operand(s)); 11-bit types exhaustively (every i16 for new/From<i16>, all 2048^2 operand pairs for + - *, \
         every value for Neg and ordering against a boundary set), wider types on boundary x boundary grids plus proptest-random operands biased \
         toward overflow by a little and by multiples of 2^bits; non-trivial: the exact result is out of range, or an operand / argument is MIN or MAX \
         or out of range; enumerations distinct by construction, random cases de-duplicated by hash",
    );
    ctx.assume(if debug {
        "this part is the debug-assertion configuration (debug-assertions and overflow-checks on): an out-of-range exact result must panic"
    } else {
        "this part is the release configuration (debug-assertions and overflow-checks off): results must equal the exact result wrapped modulo 2^bits"
    });
    ctx.assume("oracle = exact i128 arithmetic; operands are built with new_unchecked from in-range values");
    ctx.require_class("exact result out of range");
    ctx.require_class("multi-wrap overflow");

    // new / From<Rep>: every i16 for the 11-bit types
    let mut cases = Vec::new();
    for ty in [Ty::I11, Ty::U11] {
        for v in i16::MIN as i128..=i16::MAX as i128 {
            cases.push(Case { ty, op: Op::New, a: v, b: 0 });
            cases.push(Case { ty, op: Op::FromRep, a: v, b: 0 });
        }
    }
    ctx.enumerate("new+from/exhaustive-11bit", true, cases.into_iter(), check);
    let mut cases = Vec::new();
    for &ty in &TYS[2..] {
        for v in boundary_reps(ty) {
            cases.push(Case { ty, op: Op::New, a: v, b: 0 });
            cases.push(Case { ty, op: Op::FromRep, a: v, b: 0 });
        }
    }
    ctx.enumerate("new+from/boundaries-wide", true, cases.into_iter(), check);
    let strat = (2usize..8, any::<i64>(), 0u32..64, any::<bool>()).prop_map(|(ti, r, sh, isnew)| {
        let ty = TYS[ti];
        let v = ((r >> sh) as i128).clamp(ty.rep_min(), ty.rep_max());
        Case { ty, op: if isnew { Op::New } else { Op::FromRep }, a: v, b: 0 }
    });
    ctx.prop("new+from/random-wide", ctx.pick(20_000, 200_000), strat, check);

    // binary ops, 11-bit: all operand pairs
    let n11 = 2u64 * 3 * 2048 * 2048;
    ctx.par_enumerate(
        "ops/exhaustive-11bit",
        true,
        n11,
        |i| {
            let ty = if i / (3 * 2048 * 2048) == 0 { Ty::I11 } else { Ty::U11 };
            let r = i % (3 * 2048 * 2048);
            let op = [Op::Add, Op::Sub, Op::Mul][(r / (2048 * 2048)) as usize];
            let p = r % (2048 * 2048);
            Case { ty, op, a: ty.min() + (p / 2048) as i128, b: ty.min() + (p % 2048) as i128 }
        },
        check,
    );
    // Neg and ordering
    let mut cases = Vec::new();
    for v in -1024..=1023 {
        cases.push(Case { ty: Ty::I11, op: Op::Neg, a: v, b: 0 });
    }
    for ty in [Ty::I24, Ty::I48] {
        for v in boundary_operands(ty) {
            cases.push(Case { ty, op: Op::Neg, a: v, b: 0 });
        }
    }
    ctx.enumerate("neg/exhaustive-I11+boundaries", true, cases.into_iter(), check);
    let mut cases = Vec::new();
    for &ty in &TYS {
        let b = boundary_operands(ty);
        for &x in &b {
            for &y in &b {
                cases.push(Case { ty, op: Op::Cmp, a: x, b: y });
            }
        }
    }
    ctx.enumerate("ordering/boundary-grid", true, cases.into_iter(), check);

    // binary ops, wide: boundary x boundary grid
    let mut grid = Vec::new();
    for &ty in &TYS[2..] {
        let b = boundary_operands(ty);
        for op in [Op::Add, Op::Sub, Op::Mul] {
            for &x in &b {
                for &y in &b {
                    grid.push(Case { ty, op, a: x, b: y });
                }
            }
        }
    }
    let n = grid.len() as u64;
    ctx.par_enumerate("ops/grid-wide", true, n, move |i| grid[i as usize].clone(), check);
    ctx.prop("ops/random-wide", ctx.pick(150_000, 2_000_000), wide_op_case(), check);

    // widening From impls
    let ws = widenings();
    let mut cases = Vec::new();
    for (k, w) in ws.iter().enumerate() {
        if w.hi - w.lo < (1 << 17) {
            for v in w.lo..=w.hi {
                cases.push(WidenCase { impl_idx: k, v });
            }
        } else {
            let mut vs = vec![];
            for d in 0..4 {
                vs.extend([w.lo + d, w.hi - d, d, -d]);
            }
            let mut x: u64 = 0x2545_f491_4f6c_dd1d ^ ctx.sub_seed("widen");
            for _ in 0..5000 {
                x ^= x << 13;
                x ^= x >> 7;
                x ^= x << 17;
                vs.push(w.lo + (x as i128).rem_euclid(w.hi - w.lo + 1));
            }
            vs.retain(|v| *v >= w.lo && *v <= w.hi);
            for v in vs {
                cases.push(WidenCase { impl_idx: k, v });
            }
        }
    }
    ctx.enumerate("widening-from", false, cases.into_iter(), |c: &WidenCase, st: &mut Stats| {
        let ws = widenings();
        let w = ws.get(c.impl_idx).ok_or("bad impl index")?;
        let got = (w.f)(c.v);
        st.nt(c.v == w.lo || c.v == w.hi || c.v < 0);
        ensure!(got == c.v, "{} of {} has inner {}", w.name, c.v, got);
        Ok(())
    });

    // every other way a custom-width sample comes into being must respect the range too: conversion from floats and from
    // the other integer formats (boundary values, incl. the largest floats below 1.0 and -1.0)
    #[derive(Clone, Debug, Serialize, Deserialize)]
    struct ConvCase {
        /// 0 = f32 bit pattern, 1 = f64 bit pattern, 2 = i64 value, 3 = u64 value
        src: u8,
        bits: u64,
    }
    let mut cases = Vec::new();
    for k in 0..=6u64 {
        for sign in [0u64, 1] {
            cases.push(ConvCase { src: 0, bits: ((1.0f32.to_bits() - 1 - k as u32) as u64) | (sign << 31) });
            cases.push(ConvCase { src: 1, bits: (1.0f64.to_bits() - 1 - k) | (sign << 63) });
        }
    }
    for v in [0.0f64, -0.0, -1.0, 0.5, -0.5, 0.999, -0.999, 1e-10, -1e-10] {
        cases.push(ConvCase { src: 0, bits: (v as f32).to_bits() as u64 });
        cases.push(ConvCase { src: 1, bits: v.to_bits() });
    }
    for v in [i64::MIN, i64::MIN + 1, -1, 0, 1, i64::MAX - 1, i64::MAX, 1 << 40, -(1 << 40)] {
        cases.push(ConvCase { src: 2, bits: v as u64 });
        cases.push(ConvCase { src: 3, bits: v as u64 });
    }
    ctx.enumerate("conversions-into-custom-types-stay-in-range", true, cases.into_iter(), |c: &ConvCase, st: &mut Stats| {
        use dasp_sample::{Sample, I24, I48, U24, U48};
        st.nt(true);
        macro_rules! into_all {
            ($v:expr, $what:expr) => {{
                let (a, b, x, y): (I24, U24, I48, U48) = ($v.to_sample(), $v.to_sample(), $v.to_sample(), $v.to_sample());
                ensure!((-8_388_608..=8_388_607).contains(&a.inner()), "{} converts to I24 with inner value {} outside [MIN, MAX]", $what, a.inner());
                ensure!((0..=16_777_215).contains(&b.inner()), "{} converts to U24 with inner value {} outside [MIN, MAX]", $what, b.inner());
                ensure!((-140_737_488_355_328..=140_737_488_355_327i64).contains(&x.inner()), "{} converts to I48 with inner value {} outside [MIN, MAX]", $what, x.inner());
                ensure!((0..=281_474_976_710_655i64).contains(&y.inner()), "{} converts to U48 with inner value {} outside [MIN, MAX]", $what, y.inner());
            }};
        }
        match c.src {
            0 => {
                let v = f32::from_bits(c.bits as u32);
                ensure!(v >= -1.0 && v < 1.0, "bad case: outside the documented float domain");
                into_all!(v, format!("f32 {:e}", v));
            }
            1 => {
                let v = f64::from_bits(c.bits);
                ensure!(v >= -1.0 && v < 1.0, "bad case: outside the documented float domain");
                into_all!(v, format!("f64 {:e}", v));
            }
            2 => into_all!(c.bits as i64, format!("i64 {}", c.bits as i64)),
            _ => into_all!(c.bits, format!("u64 {}", c.bits)),
        }
        Ok(())
    });
}
