//! vp_alloc — C07: no heap allocation in steady state (the realtime-safety promise).
//!
//! A catalogue of scenarios, one per public operation family.  Each scenario constructs its
//! state unarmed, then runs `n` operations with the calling thread's allocation counters armed;
//! the same run is also done unarmed and the two checksums must agree (so the armed region
//! really executed the library code).

use dasp_envelope::Detector;
use dasp_frame::Frame;
use dasp_interpolate::{floor::Floor, linear::Linear, sinc::Sinc, Interpolator};
use dasp_ring_buffer::{Bounded, Fixed};
use dasp_rms::Rms;
use dasp_sample::{Sample, I24, U48};
use dasp_signal::bus::SignalBus;
use dasp_signal::envelope::SignalEnvelope;
use dasp_signal::interpolate::Converter;
use dasp_signal::rms::SignalRms;
use dasp_signal::window::{Window, Windower};
use dasp_signal::{self as signal, Signal};
use dasp_slice as ds;
use dasp_window::{Hann, Rectangle, Window as WindowFn};
use proptest::prelude::*;
use serde::{Deserialize, Serialize};
use vp_core::alloc::{measure, Events};
use vp_core::{ensure, CheckResult, Ctx, Stats};

mod graphs;

#[derive(Clone, Debug, Serialize, Deserialize)]
pub struct Case {
    pub scenario: String,
    pub seed: u64,
    pub n: usize,
}

fn xs(s: &mut u64) -> u64 {
    *s ^= *s << 13;
    *s ^= *s >> 7;
    *s ^= *s << 17;
    *s
}
/// value in [-0.9, 0.9]
fn fv(s: &mut u64) -> f64 {
    (xs(s) % 1_800_001) as f64 / 1_000_000.0 - 0.9
}
fn mix(acc: &mut u64, bits: u64) {
    *acc = acc.wrapping_mul(0x100_0000_01b3).wrapping_add(bits ^ 0x9e37);
}
fn mixf(acc: &mut u64, v: f64) {
    mix(acc, v.to_bits())
}

/// construct unarmed, run unarmed (checksum), construct again, run armed; zero events expected
fn steady<S>(setup: impl Fn() -> S, run: impl Fn(&mut S) -> u64) -> Result<(Events, bool), String> {
    let mut a = setup();
    let r1 = run(&mut a);
    let mut b = setup();
    let (r2, ev) = measure(|| run(&mut b));
    drop(a);
    drop(b);
    Ok((ev, r1 == r2))
}

type ScenarioFn = fn(u64, usize) -> Result<(Events, bool), String>;

macro_rules! scenarios {
    ($( $name:literal => |$seed:ident, $n:ident| $body:block )*) => {
        pub fn catalogue() -> Vec<(&'static str, ScenarioFn)> {
            vec![ $( ($name, { fn f($seed: u64, $n: usize) -> Result<(Events, bool), String> $body f as ScenarioFn }) ),* ]
        }
    };
}

fn frames_f32x2(seed: u64, n: usize) -> Vec<[f32; 2]> {
    let mut s = seed | 1;
    (0..n).map(|_| [fv(&mut s) as f32, fv(&mut s) as f32]).collect()
}
fn frames_i16x2(seed: u64, n: usize) -> Vec<[i16; 2]> {
    let mut s = seed | 1;
    (0..n).map(|_| [(fv(&mut s) * 12000.0) as i16, (fv(&mut s) * 12000.0) as i16]).collect()
}
fn frames_f64(seed: u64, n: usize) -> Vec<f64> {
    let mut s = seed | 1;
    (0..n).map(|_| fv(&mut s)).collect()
}

/// pull `n` frames of any signal into a checksum
fn pull<S: Signal>(sig: &mut S, n: usize) -> u64
where
    <S::Frame as Frame>::Sample: dasp_sample::Duplex<f64>,
{
    let mut acc = 0u64;
    for _ in 0..n {
        let f = sig.next();
        for s in f.channels() {
            mixf(&mut acc, s.to_sample::<f64>());
        }
        mix(&mut acc, sig.is_exhausted() as u64);
    }
    acc
}

scenarios! {
    "sample: conversions, add_amp, mul_amp, to_signed/float (i16, u8, I24, U48, i32, f32, f64)" => |seed, n| {
        steady(|| seed | 1, |s| {
            let mut acc = 0u64;
            for _ in 0..n {
                let v = fv(s);
                let a: i16 = v.to_sample();
                let b: u8 = a.to_sample();
                let c: I24 = v.to_sample();
                let d: U48 = c.to_sample();
                let e: f32 = d.to_sample();
                let g: i32 = (e * 0.5).to_sample();
                mixf(&mut acc, Sample::mul_amp(Sample::add_amp(a, 3), 0.5).to_sample::<f64>());
                mixf(&mut acc, Sample::mul_amp(Sample::add_amp(b, -2), 0.25).to_float_sample() as f64);
                mixf(&mut acc, c.to_signed_sample().to_sample::<f64>() + d.to_float_sample() + g.to_signed_sample() as f64);
                mixf(&mut acc, Sample::mul_amp(Sample::add_amp(v, 0.01), 0.5));
            }
            acc
        })
    }
    "sample: arithmetic operators of the custom-width integer types (I11, U11, I20, U20, I24, U24, I48, U48)" => |seed, n| {
        steady(|| seed | 1, |s| {
            use dasp_sample::types::{I11, I20, I48, U11, U20, U24};
            let mut acc = 0u64;
            macro_rules! ops {
                ($T:ident, $rep:ty, $lim:expr) => {{
                    // operands small enough that every result is in range (the debug-assertions build panics on overflow)
                    let a = $T::new((1 + xs(s) % $lim) as $rep).unwrap();
                    let b = $T::new((1 + xs(s) % $lim) as $rep).unwrap();
                    let r = (a + b) * b - a;
                    let q = (r / b) % a + (a & b) + (a | b) + (a ^ b) + (b << $T::new(1).unwrap()) + (a >> $T::new(1).unwrap());
                    mix(&mut acc, (q.inner() as u64).wrapping_add((a < b) as u64 + (a == b) as u64));
                }};
            }
            for _ in 0..n {
                ops!(I11, i16, 20);
                ops!(U11, i16, 20);
                ops!(I20, i32, 300);
                ops!(U20, i32, 300);
                ops!(I24, i32, 1000);
                ops!(U24, i32, 1000);
                ops!(I48, i64, 100_000);
                ops!(U48, i64, 100_000);
                let m = -I24::new((xs(s) % 5000) as i32 - 2500).unwrap();
                let k = -I48::new((xs(s) % 5000) as i64 - 2500).unwrap() * I48::new(3).unwrap();
                mix(&mut acc, m.inner() as u64 ^ k.inner() as u64);
            }
            acc
        })
    }
    "frame: map, zip_map, offset/scale, add/mul_amp, conversions, channels, from_fn, from_samples" => |seed, n| {
        steady(|| seed | 1, |s| {
            let mut acc = 0u64;
            for k in 0..n {
                let f: [i16; 4] = core::array::from_fn(|_| (fv(s) * 10000.0) as i16);
                let g: [i16; 4] = core::array::from_fn(|_| (fv(s) * 10000.0) as i16);
                let m: [f32; 4] = f.map(|x| x.to_sample::<f32>());
                let z: [i16; 4] = f.zip_map(g, |a, b| a / 2 + b / 2);
                let o = f.offset_amp(5).scale_amp(0.5).add_amp(g.to_signed_frame().scale_amp(0.25)).mul_amp([0.5f32, 1.0, 0.25, 0.0]);
                for c in o.channels().chain(z.channels()) { mix(&mut acc, c as u64); }
                for c in m.channels_ref() { mixf(&mut acc, *c as f64); }
                let mut h = f.to_float_frame();
                for c in h.channels_mut() { *c *= 0.5; }
                mixf(&mut acc, *h.channel(1).unwrap() as f64);
                let ff = <[u8; 3] as Frame>::from_fn(|i| (i * 40 + k % 7) as u8);
                let mut it = ff.channels();
                let short = <[u8; 5] as Frame>::from_samples(&mut it);
                let mut it2 = [1u8, 2, 3, 4, 5, 6].iter().cloned();
                let full = <[u8; 5] as Frame>::from_samples(&mut it2);
                mix(&mut acc, short.is_none() as u64 + full.map_or(0, |x| x[4] as u64));
                let mono = Frame::add_amp(0.25f32.scale_amp(0.5), 0.1f32).offset_amp(0.05);
                mixf(&mut acc, mono as f64);
            }
            acc
        })
    }
    "slice: borrowed sample<->frame views" => |seed, n| {
        steady(|| (frames_f64(seed, 6 * (n / 6 + 1)), frames_i16x2(seed, n + 1)), |st| {
            let mut acc = 0u64;
            let (samples, frames) = st;
            for _ in 0..4 {
                let v: Option<&[[f64; 3]]> = ds::to_frame_slice(&samples[..]);
                let w: Option<&[[f64; 6]]> = ds::to_frame_slice(&samples[..]);
                let x: Option<&[[f64; 7]]> = ds::to_frame_slice(&samples[1..]);
                mix(&mut acc, v.map_or(0, |v| v.len() as u64) + w.map_or(0, |v| v.len() as u64) + x.map_or(0, |v| v.len() as u64));
                let back: &[i16] = ds::to_sample_slice(&frames[..]);
                mix(&mut acc, back.len() as u64 + back[1] as u16 as u64);
                let m: Option<&mut [[f64; 2]]> = ds::to_frame_slice_mut(&mut samples[..]);
                if let Some(m) = m { m[0][1] *= 0.5; }
                let sm: &mut [i16] = ds::to_sample_slice_mut(&mut frames[..]);
                sm[0] = sm[0].wrapping_add(1);
            }
            acc
        })
    }
    "slice: in-place operations" => |seed, n| {
        steady(|| (frames_f32x2(seed, n), frames_f32x2(seed ^ 77, n)), |st| {
            let (a, b) = st;
            ds::map_in_place(&mut a[..], |f| f.scale_amp(0.5));
            ds::zip_map_in_place(&mut a[..], &b[..], |x, y| x.add_amp(y.scale_amp(0.1)));
            ds::add_in_place(&mut a[..], &b[..]);
            ds::add_in_place_with_amp_per_channel(&mut a[..], &b[..], [0.25f32, 0.5]);
            let mut acc = 0u64;
            for f in a.iter() { mixf(&mut acc, f[0] as f64 + f[1] as f64); }
            ds::write(&mut a[..], &b[..]);
            ds::equilibrium(&mut b[..]);
            mixf(&mut acc, a[0][0] as f64 + b[0][1] as f64);
            acc
        })
    }
    "ring buffer: Bounded over array, &mut, Vec, Box<[T]> (storage never resized)" => |seed, n| {
        steady(|| (Bounded::from([0u32; 7]), Bounded::from(vec![0u32; 5]), Bounded::from(vec![0u32; 3].into_boxed_slice()), vec![0u32; 4], seed | 1), |st| {
            let (a, v, b, backing, s) = st;
            let mut m = Bounded::from(&mut backing[..]);
            let mut acc = 0u64;
            for k in 0..n {
                let x = xs(s) as u32;
                match x % 7 {
                    0 | 1 | 2 => { mix(&mut acc, a.push(x).unwrap_or(0) as u64 + v.push(x).unwrap_or(1) as u64 + b.push(x).unwrap_or(2) as u64 + m.push(x).unwrap_or(3) as u64); }
                    3 => { mix(&mut acc, a.pop().unwrap_or(0) as u64 + v.pop().unwrap_or(0) as u64 + m.pop().unwrap_or(0) as u64); }
                    4 => { for e in a.iter().chain(v.iter()).chain(b.iter()) { mix(&mut acc, *e as u64); } let (p, q) = v.slices(); mix(&mut acc, (p.len() + q.len()) as u64); }
                    5 => { for e in a.iter_mut() { *e = e.wrapping_add(1); } if let Some(e) = v.get_mut(0) { *e ^= 1; } mix(&mut acc, a.get(k % 8).copied().unwrap_or(9) as u64 + if b.len() > 0 { b[0] as u64 } else { 0 }); }
                    _ => { for e in b.drain().take(2) { mix(&mut acc, e as u64); } a.extend([x, x + 1].iter().cloned()); v.extend((0..12u32).filter(|i| i % 5 != 0)); let (p, _) = a.slices_mut(); if let Some(e) = p.first_mut() { *e = 5; } }
                }
                mix(&mut acc, (a.len() + v.len() + b.len() + m.len()) as u64 + a.is_full() as u64 + v.is_empty() as u64 + b.max_len() as u64);
            }
            acc
        })
    }
    "ring buffer: Fixed over array, Vec, Box<[T]>" => |seed, n| {
        steady(|| (Fixed::from([0.0f32; 9]), Fixed::from(vec![[0i16; 2]; 4]), Fixed::from(vec![0u8; 3].into_boxed_slice()), seed | 1), |st| {
            let (a, v, b, s) = st;
            let mut acc = 0u64;
            for k in 0..n {
                let x = fv(s) as f32;
                mixf(&mut acc, a.push(x) as f64);
                mix(&mut acc, (v.push([k as i16, (k as i16).wrapping_neg()])[0] as u16 as u64).wrapping_add(b.push(k as u8) as u64));
                if k % 5 == 0 { a.set_first(k); v.set_first(k + 1); }
                mixf(&mut acc, *a.get(k) as f64 + a[k + 3] as f64);
                *a.get_mut(k + 1) = 0.5;
                b[k] = b[k].wrapping_add(1);
                for e in a.iter().take(3) { mixf(&mut acc, *e as f64); }
                for e in a.iter_loop().take(12) { mixf(&mut acc, *e as f64); }
                for e in v.iter_mut() { e[0] = e[0].wrapping_add(1); }
                let (p, q) = b.slices(); mix(&mut acc, (p.len() * 10 + q.len()) as u64);
                let (p, _) = a.slices_mut(); if let Some(e) = p.first_mut() { *e *= 0.5; }
                if k % 11 == 0 { b.extend([1u8, 2, 3, 4].iter().cloned()); }
                // iterators without a known length, shorter and longer than the buffer
                if k % 13 == 0 { a.extend((0..40u32).filter(|i| i % 3 == 0).map(|i| i as f32 * 0.01)); v.extend((0..9i16).filter(|i| i % 4 != 1).map(|i| [i, -i])); b.extend(std::iter::from_fn(|| None)); }
                mix(&mut acc, (a.len() + v.len() + b.len()) as u64);
            }
            acc
        })
    }
    "peak: full / positive / negative half-wave rectifiers" => |seed, n| {
        steady(|| seed | 1, |s| {
            let mut acc = 0u64;
            use dasp_peak::Rectifier;
            for _ in 0..n {
                let f = [(fv(s) * 30000.0) as i16, (fv(s) * 30000.0) as i16];
                let u = [(128.0 + fv(s) * 120.0) as u8; 3];
                let a = dasp_peak::full_wave(f);
                let b = dasp_peak::positive_half_wave(u);
                let c = dasp_peak::negative_half_wave(fv(s));
                let d = dasp_peak::FullWave.rectify(u);
                mix(&mut acc, a[0] as u64 + a[1] as u64 + b[0] as u64 + d[2] as u64);
                mixf(&mut acc, c);
            }
            acc
        })
    }
    "rms: next, next_squared, current, reset (Vec and array windows)" => |seed, n| {
        steady(|| (Rms::<[f32; 2], _>::new(Fixed::from(vec![[0.0f32; 2]; 16])), Rms::<i16, _>::new(Fixed::from([0.0f32; 8])), seed | 1), |st| {
            let (a, b, s) = st;
            let mut acc = 0u64;
            for k in 0..n {
                let f = [fv(s) as f32, fv(s) as f32];
                let o = if k % 3 == 0 { a.next_squared(f) } else { a.next(f) };
                mixf(&mut acc, o[0] as f64 + o[1] as f64 + a.current()[0] as f64);
                mixf(&mut acc, b.next((fv(s) * 20000.0) as i16) as f64);
                if k % 50 == 49 { a.reset(); b.reset(); }
                mix(&mut acc, a.window_frames() as u64);
            }
            acc
        })
    }
    "envelope: peak (x3) and rms detectors, set_attack/release" => |seed, n| {
        steady(|| (
            Detector::<[f32; 2], _>::peak(5.0, 50.0),
            Detector::<i16, _>::peak_positive_half_wave(0.0, 10.0),
            Detector::<[u8; 3], _>::peak_negative_half_wave(1.0, 0.5),
            Detector::<[f64; 2], _>::rms(Fixed::from(vec![[0.0f64; 2]; 8]), 2.0, 20.0),
            seed | 1), |st| {
            let (a, b, c, d, s) = st;
            let mut acc = 0u64;
            for k in 0..n {
                let o = a.next([fv(s) as f32, fv(s) as f32]);
                mixf(&mut acc, o[0] as f64 + o[1] as f64);
                mix(&mut acc, b.next((fv(s) * 20000.0) as i16) as u64);
                let u = c.next([(128.0 + fv(s) * 100.0) as u8; 3]);
                mix(&mut acc, u[1] as u64);
                let r = d.next([fv(s), fv(s)]);
                mixf(&mut acc, r[0] + r[1]);
                if k % 40 == 0 { a.set_attack_frames(k as f32 % 13.0); d.set_release_frames(3.0); b.set_release_frames(0.0); }
            }
            acc
        })
    }
    "interpolators: Floor, Linear, Sinc (Vec and array rings): interpolate, next_source_frame, reset" => |seed, n| {
        steady(|| (Floor::new([0.0f32; 2]), Linear::new(0i16, 0i16), Sinc::new(Fixed::from(vec![[0.0f64; 2]; 16])), Sinc::new(Fixed::from([0.0f32; 8])), seed | 1), |st| {
            let (f, l, sv, sa, s) = st;
            let mut acc = 0u64;
            for k in 0..n {
                let x = (xs(s) % 1000) as f64 / 1000.0;
                f.next_source_frame([fv(s) as f32, fv(s) as f32]);
                l.next_source_frame((fv(s) * 20000.0) as i16);
                sv.next_source_frame([fv(s) * 0.1, fv(s) * 0.1]);
                sa.next_source_frame(fv(s) as f32 * 0.1);
                mixf(&mut acc, f.interpolate(x)[0] as f64 + l.interpolate(x) as f64 + sv.interpolate(x)[1] + sa.interpolate(x) as f64);
                if k % 64 == 63 { f.reset(); l.reset(); sv.reset(); sa.reset(); }
            }
            acc
        })
    }
    "rarely used entry points: conv functions called directly, FromSample, channel_mut, channels_mut().rev(), from_* slice views, Bounded IndexMut / from_full / raw parts, Detect::detect, Converter source / setters, Phase::next_phase_wrapped_to" => |seed, n| {
        steady(|| {
            let src = signal::from_iter(frames_f32x2(seed, n + 8));
            let conv = Converter::scale_playback_hz(src, Linear::new([0.0f32; 2], [0.0f32; 2]), 1.25);
            (conv, signal::rate(48_000.0).const_hz(441.0).phase(), Sinc::new(Fixed::from([[0.0f32; 2]; 8])), frames_f32x2(seed ^ 3, 8), frames_f64(seed, 12), seed | 1)
        }, |st| {
            use dasp_envelope::detect::{Detect, Peak};
            use dasp_sample::{conv, FromSample, ToSample};
            let (cv, phase, sinc, frames, samples, s) = st;
            let mut acc = 0u64;
            for k in 0..n {
                let v = fv(s);
                // conversion functions and the underscore traits, called directly
                let a: i16 = conv::f64::to_i16(v);
                let b: u8 = conv::i16::to_u8(a);
                let c: I24 = conv::f32::to_i24(v as f32);
                let d: f32 = conv::i24::to_f32(c);
                let e: i32 = FromSample::from_sample_(d);
                let g: u16 = ToSample::to_sample_(e);
                mix(&mut acc, a as u16 as u64 ^ b as u64 ^ g as u64);
                mixf(&mut acc, d as f64 + U48::new_unchecked(1 << 40).to_sample::<f64>());
                // frames: channel_mut and the double-ended mutable iterator
                let mut f = [a, a / 2, a / 3, 7];
                if let Some(x) = f.channel_mut(k % 5) { *x = x.wrapping_add(1); }
                for x in f.channels_mut().rev().take(2) { *x = x.wrapping_sub(1); }
                mix(&mut acc, f[3] as u16 as u64 + f[0] as u16 as u64);
                // borrowed views through the from_* entry points
                let v3: Option<&[[f64; 3]]> = ds::from_sample_slice(&samples[..]);
                let v5: Option<&[[f64; 5]]> = ds::from_sample_slice(&samples[..]);
                let back: &[f32] = ds::from_frame_slice(&frames[..]);
                mix(&mut acc, v3.map_or(0, |x| x.len() as u64) + v5.is_some() as u64 + back.len() as u64);
                {
                    let m: Option<&mut [[f64; 4]]> = ds::from_sample_slice_mut(&mut samples[..]);
                    if let Some(m) = m { m[0][k % 4] *= 0.999; }
                    let fm: &mut [f32] = ds::from_frame_slice_mut(&mut frames[..]);
                    fm[k % 16] *= 0.5;
                }
                // bounded ring buffer over an array: from_full, IndexMut, raw parts round trip (no heap involved)
                let mut rb = Bounded::from_full([1u32, 2, 3, 4]);
                rb[k % 4] = k as u32;
                let _ = rb.pop();
                rb.push(9);
                let (start, len, data) = unsafe { rb.into_raw_parts() };
                let rb2 = Bounded::from_raw_parts(start, len, data);
                mix(&mut acc, rb2.iter().map(|x| *x as u64).sum::<u64>());
                // detector stage used directly
                let mut p = Peak::full_wave();
                let det: [f32; 2] = p.detect([v as f32, -(v as f32)]);
                mixf(&mut acc, det[0] as f64 + det[1] as f64 + sinc.interpolate(0.25)[0] as f64);
                // converter: source access and every setter between frames
                match k % 4 { 0 => cv.set_playback_hz_scale(0.75), 1 => cv.set_sample_hz_scale(1.5), 2 => cv.set_hz_to_hz(44_100.0, 48_000.0), _ => {} }
                let o = cv.next();
                mixf(&mut acc, o[0] as f64 + cv.source().is_exhausted() as u8 as f64);
                if k % 97 == 0 { let _ = cv.source_mut().next(); }
                mixf(&mut acc, phase.next_phase_wrapped_to(0.5) + phase.next_phase());
            }
            acc
        })
    }
    "wide frames and formatting: Sinc / Linear / Converter over 16-channel frames; Debug of the stateful types written into a non-allocating sink" => |seed, n| {
        struct Sink(u64);
        impl std::fmt::Write for Sink {
            fn write_str(&mut self, s: &str) -> std::fmt::Result {
                self.0 = self.0.wrapping_add(s.len() as u64);
                Ok(())
            }
        }
        steady(|| {
            let wide: Vec<[f32; 16]> = (0..n + 40).map(|i| core::array::from_fn(|c| ((i * 7 + c * 3 + seed as usize) % 97) as f32 / 97.0 - 0.5)).collect();
            let nine: Vec<[i16; 9]> = (0..n + 40).map(|i| core::array::from_fn(|c| ((i * 5 + c) % 2001) as i16 - 1000)).collect();
            (
                Converter::scale_playback_hz(signal::from_iter(wide), Sinc::new(Fixed::from(vec![[0.0f32; 16]; 8])), 0.75),
                Converter::scale_playback_hz(signal::from_iter(nine), Linear::new([0i16; 9], [0i16; 9]), 1.5),
                Rms::<[f32; 2], _>::new(Fixed::from(vec![[0.0f32; 2]; 5])),
                Bounded::from(vec![0u32; 4]),
                Detector::<[f32; 2], _>::peak(3.0, 9.0),
                Sink(0),
                seed | 1,
            )
        }, |st| {
            use std::fmt::Write;
            let (a, b, rms, rb, det, sink, s) = st;
            let mut acc = 0u64;
            for k in 0..n {
                let x = a.next();
                let y = b.next();
                mixf(&mut acc, x[0] as f64 + x[15] as f64);
                mix(&mut acc, y[8] as u16 as u64);
                let f = [fv(s) as f32, fv(s) as f32];
                let _ = rms.next(f);
                let _ = det.next(f);
                let _ = rb.push(k as u32);
                if k % 3 == 0 {
                    // a history that is not a whole number of windows: the ring is rotated when it is printed
                    let _ = write!(sink, "{:?} {:?} {:?}", rms, rb, f);
                }
            }
            acc ^ sink.0
        })
    }
    "window functions: Hann, Rectangle (f64, f32)" => |seed, n| {
        steady(|| seed | 1, |s| {
            let mut acc = 0u64;
            for _ in 0..n {
                let p = (xs(s) % 10_001) as f64 / 10_000.0;
                mixf(&mut acc, <Hann as WindowFn<f64>>::window(p) + <Rectangle as WindowFn<f64>>::window(p));
                mixf(&mut acc, <Hann as WindowFn<f32>>::window(p as f32) as f64 + <Rectangle as WindowFn<f32>>::window(p as f32) as f64);
            }
            acc
        })
    }
    "signal sources: equilibrium, gen, gen_mut, from_iter, from_interleaved_samples_iter" => |seed, n| {
        steady(|| {
            let mut k = 0.0f32;
            (signal::equilibrium::<[i16; 2]>(), signal::gen(|| [0.25f32, -0.25]), signal::gen_mut(move || { k += 0.001; k }), signal::from_iter(frames_f32x2(seed, n / 2)), signal::from_interleaved_samples_iter::<_, [f64; 3]>(frames_f64(seed, n + 1)))
        }, |st| {
            let (a, b, c, d, e) = st;
            pull(a, n) ^ pull(b, n) ^ pull(c, n) ^ pull(d, n) ^ pull(e, n)
        })
    }
    "signal sources: phase, sine, saw, square, noise, noise_simplex over ConstHz and Hz" => |seed, n| {
        steady(|| {
            let r = signal::rate(44_100.0);
            let hz = signal::from_iter(frames_f64(seed, n).into_iter().map(|v| 440.0 + 100.0 * v));
            (r.const_hz(440.0).phase(), r.const_hz(2000.5).sine(), r.const_hz(0.3).saw(), r.const_hz(1e5).square(), signal::noise(seed), r.const_hz(77.0).noise_simplex(), r.hz(hz).sine())
        }, |st| {
            let (a, b, c, d, e, f, g) = st;
            pull(a, n) ^ pull(b, n) ^ pull(c, n) ^ pull(d, n) ^ pull(e, n) ^ pull(f, n) ^ pull(g, n)
        })
    }
    "adaptors: map, zip_map, add_amp, mul_amp, offset/scale (+per channel), clip_amp, inspect, delay, by_ref" => |seed, n| {
        steady(|| {
            let a = signal::from_iter(frames_f32x2(seed, n));
            let b = signal::from_iter(frames_f32x2(seed ^ 5, n + 3));
            let c = signal::from_iter(frames_f32x2(seed ^ 9, n));
            let d = signal::from_iter(frames_i16x2(seed, n));
            (
                a.map(|f: [f32; 2]| f.scale_amp(0.5)).zip_map(b, |x, y: [f32; 2]| x.add_amp(y)).add_amp(c).mul_amp(signal::gen(|| [0.5f32, 0.25])).offset_amp(0.01).scale_amp(0.9)
                    .offset_amp_per_channel([0.01f32, -0.01]).scale_amp_per_channel([0.5f32, 1.0]).clip_amp(0.4).inspect(|f: &[f32; 2]| { std::hint::black_box(f); }).delay(3),
                d.scale_amp(0.5).offset_amp(7).clip_amp(3000).delay(1),
            )
        }, |st| {
            let (a, d) = st;
            let mut acc = pull(a, n / 2);
            { let mut r = a.by_ref().scale_amp(0.5); acc ^= pull(&mut r, n / 4); }
            acc ^ pull(a, n / 2) ^ pull(d, n + 5)
        })
    }
    "adaptors: take, until_exhausted, into_interleaved_samples (next_sample and iterator), lift" => |seed, n| {
        steady(|| (signal::from_iter(frames_f32x2(seed, n)).take(n / 2), signal::from_iter(frames_i16x2(seed, n)).scale_amp(0.5).until_exhausted(), signal::from_iter(frames_f32x2(seed, n)).into_interleaved_samples(), signal::from_iter(frames_i16x2(seed ^ 3, n)).into_interleaved_samples().into_iter(), signal::lift(frames_f64(seed, n), |s| s.scale_amp(0.5))), |st| {
            let (t, u, i, it, l) = st;
            let mut acc = 0u64;
            for f in t.by_ref() { mixf(&mut acc, f[0] as f64); }
            mix(&mut acc, t.len() as u64 + t.next().is_none() as u64);
            for f in u.by_ref() { mix(&mut acc, f[1] as u64); }
            while let Some(s) = i.next_sample() { mixf(&mut acc, s as f64); }
            for s in it.by_ref() { mix(&mut acc, s as u64); }
            for f in l.by_ref() { mixf(&mut acc, f); }
            mix(&mut acc, u.next().is_none() as u64 + i.next_sample().is_none() as u64 + it.next().is_none() as u64);
            acc
        })
    }
    "fork: by_ref branches (array and Vec ring)" => |seed, n| {
        steady(|| (signal::from_iter(frames_f32x2(seed, n)).fork(Bounded::from([[0.0f32; 2]; 8])), signal::noise(seed).fork(Bounded::from(vec![0.0f64; 5])), seed | 1), |st| {
            let (f1, f2, s) = st;
            let mut acc = 0u64;
            {
                let (mut a, mut b) = f1.by_ref();
                let (mut c, mut d) = f2.by_ref();
                let mut lead: i64 = 0;
                for _ in 0..n {
                    let pick_a = if lead >= 5 { false } else if lead <= -5 { true } else { xs(s) % 2 == 0 };
                    if pick_a { mixf(&mut acc, a.next()[0] as f64 + c.next()); lead += 1; } else { mixf(&mut acc, b.next()[1] as f64 + d.next()); lead -= 1; }
                    mix(&mut acc, (a.pending_frames() + b.pending_frames() + c.pending_frames() + d.pending_frames()) as u64);
                }
            }
            acc
        })
    }
    "fork: by_rc branches after creation" => |seed, n| {
        steady(|| { let (a, b) = signal::noise(seed).fork(Bounded::from(vec![0.0f64; 6])).by_rc(); (a, b, seed | 1) }, |st| {
            let (a, b, s) = st;
            let mut acc = 0u64;
            let mut lead: i64 = 0;
            for _ in 0..n {
                let pick_a = if lead >= 6 { false } else if lead <= -6 { true } else { xs(s) % 2 == 0 };
                if pick_a { mixf(&mut acc, a.next()); lead += 1; } else { mixf(&mut acc, b.next()); lead -= 1; }
                mix(&mut acc, (a.pending_frames() + b.pending_frames()) as u64);
            }
            acc
        })
    }
    "buffered: next and next_frames (array, Vec rings of 7 and of 100 .. 299 frames)" => |seed, n| {
        steady(|| (signal::noise(seed).buffered(Bounded::from([0.0f64; 16])), signal::from_iter(frames_f32x2(seed, n)).buffered(Bounded::from(vec![[0.0f32; 2]; 7])), signal::noise(seed ^ 5).buffered(Bounded::from(vec![0.0f64; 100 + (seed % 200) as usize]))), |st| {
            let (a, b, long) = st;
            let mut acc = 0u64;
            for k in 0..n / 4 {
                // a ring of 100 .. 299 frames: refilled every so many calls, once through next() and once through next_frames()
                mixf(&mut acc, long.next());
                if k % 64 == 63 { for f in long.next_frames() { mixf(&mut acc, f); } }
                mixf(&mut acc, a.next() + b.next()[0] as f64);
                if k % 3 == 0 { for f in a.next_frames().take(k % 20) { mixf(&mut acc, f); } }
                if k % 5 == 0 { for f in b.next_frames() { mixf(&mut acc, f[1] as f64); } }
                mix(&mut acc, a.is_exhausted() as u64 + b.is_exhausted() as u64);
            }
            acc
        })
    }
    "converter: Floor, Linear, Sinc; from_hz_to_hz, scale_hz, mul_hz, setters" => |seed, n| {
        steady(|| {
            let mut s1 = signal::from_iter(frames_f32x2(seed, n));
            let f = Floor::new(s1.next());
            let mut s2 = signal::from_iter(frames_i16x2(seed, n));
            let l = Linear::new(s2.next(), s2.next());
            let s3 = signal::noise(seed).scale_amp(0.1);
            let sinc = Sinc::new(Fixed::from(vec![0.0f64; 32]));
            let mut s4 = signal::from_iter(frames_f64(seed ^ 1, n));
            let l4 = Linear::new(s4.next(), s4.next());
            (s1.from_hz_to_hz(f, 44_100.0, 48_000.0), s2.scale_hz(l, 1.7), Converter::scale_sample_hz(s3, sinc, 0.9), s4.mul_hz(l4, signal::gen(|| 0.75f64)))
        }, |st| {
            let (a, b, c, d) = st;
            let mut acc = pull(a, n / 2) ^ pull(b, n / 2) ^ pull(c, n / 2) ^ pull(d, n / 2);
            a.set_playback_hz_scale(0.5); b.set_hz_to_hz(2.0, 3.0); c.set_sample_hz_scale(1.5);
            acc ^= pull(a, n / 4) ^ pull(b, n / 4) ^ pull(c, n / 4);
            mix(&mut acc, a.source().is_exhausted() as u64);
            acc
        })
    }
    "adaptors: rms and detect_envelope signals" => |seed, n| {
        steady(|| (signal::from_iter(frames_f32x2(seed, n)).rms(Fixed::from(vec![[0.0f32; 2]; 12])), signal::from_iter(frames_i16x2(seed, n)).detect_envelope(Detector::peak(3.0, 30.0)), signal::noise(seed).detect_envelope(Detector::rms(Fixed::from([0.0f64; 8]), 1.0, 9.0))), |st| {
            let (a, b, c) = st;
            let mut acc = pull(a, n / 2);
            mixf(&mut acc, a.next_squared()[0] as f64);
            b.set_attack_frames(1.0); c.set_release_frames(4.0);
            acc ^ pull(b, n) ^ pull(c, n)
        })
    }
    "window iterator, Windower and Windowed" => |seed, n| {
        steady(|| (frames_f32x2(seed, n + 64), frames_i16x2(seed, n + 64)), |st| {
            let (fa, fb) = st;
            let mut acc = 0u64;
            for w in Window::<[f32; 2], Hann>::new(n.max(2)).take(n) { mixf(&mut acc, w[0] as f64); }
            for w in Window::<f64, Rectangle>::new(7).take(9) { mixf(&mut acc, w); }
            let mut wd = Windower::hann(&fa[..], 16, 5);
            mix(&mut acc, wd.size_hint().0 as u64);
            for chunk in wd.by_ref() { for f in chunk.take(16) { mixf(&mut acc, f[1] as f64); } }
            for chunk in Windower::rectangle(&fb[..], 8, 8) { for f in chunk.take(8) { mix(&mut acc, f[0] as u64); } }
            acc
        })
    }
}

/// random compositions: an adaptor tree of vp_sig's generator, built (boxed) before arming
fn tree_scenario(seed: u64, n: usize) -> Result<(Events, bool), String> {
    use proptest::strategy::{Strategy, ValueTree};
    use proptest::test_runner::{Config, RngSeed, TestRunner};
    use vp_sig::tree::{build, Built, FT};
    let mut runner = TestRunner::new(Config { rng_seed: RngSeed::Fixed(seed), failure_persistence: None, ..Config::default() });
    let tree = vp_sig::c04::tree(5, false).new_tree(&mut runner).map_err(|e| e.to_string())?.current();
    let ft = vp_sig::tree::FTS[(seed % 8) as usize];
    fn go<F: vp_sig::tree::TF>(tree: &vp_sig::tree::Node, n: usize) -> Result<(Events, bool), String>
    where
        F::Signed: std::fmt::Debug + 'static,
        F::Float: std::fmt::Debug + 'static,
        <F as Frame>::Sample: dasp_sample::Duplex<f64>,
    {
        steady(|| build::<F>(tree, &mut Built::default()), |s| pull(s, n))
    }
    match ft {
        FT::F32 => go::<f32>(&tree, n),
        FT::F32x2 => go::<[f32; 2]>(&tree, n),
        FT::F64x4 => go::<[f64; 4]>(&tree, n),
        FT::I16x2 => go::<[i16; 2]>(&tree, n),
        FT::U8x3 => go::<[u8; 3]>(&tree, n),
        FT::I32x1 => go::<[i32; 1]>(&tree, n),
        FT::U16x2 => go::<[u16; 2]>(&tree, n),
        FT::I24 => go::<I24>(&tree, n),
    }
}

/// the bus is allowed to allocate, but its backlog must stop growing once the outputs are pulled in step
fn bus_scenario(seed: u64, n: usize) -> Result<(Events, bool), String> {
    let outs = 1 + (seed % 5) as usize;
    let total = (n * 25).max(4000);
    let bus = signal::noise(seed).bus();
    let mut outputs: Vec<_> = (0..outs).map(|_| bus.send()).collect();
    let mut acc = 0u64;
    let warm = 1000;
    for _ in 0..warm {
        for o in outputs.iter_mut() {
            mixf(&mut acc, o.next());
        }
    }
    // an extra output joins, runs in step for a while and is dropped while everything is in step
    // (empty backlog): the bus must forget it completely
    if seed % 2 == 0 {
        let mut extra = bus.send();
        for _ in 0..10 {
            for o in outputs.iter_mut() {
                mixf(&mut acc, o.next());
            }
            mixf(&mut acc, extra.next());
        }
        drop(extra);
    }
    // an output in the middle of the attach order is dropped and another one attached afterwards: the newcomer must get a
    // read cursor of its own (then everything runs in step again)
    if seed % 3 == 0 && outputs.len() >= 3 {
        let gone = outputs.remove(1);
        drop(gone);
        outputs.push(bus.send());
        for _ in 0..10 {
            for o in outputs.iter_mut() {
                mixf(&mut acc, o.next());
            }
        }
    }
    let backlog0 = bus.verif_backlog_len();
    let (max_backlog, ev) = measure(|| {
        let mut mb = 0usize;
        for _ in warm..total {
            for o in outputs.iter_mut() {
                mixf(&mut acc, o.next());
            }
            mb = mb.max(bus.verif_backlog_len());
        }
        mb
    });
    if max_backlog > outs.max(1) || backlog0 > 1 {
        return Err(format!("bus backlog grew to {} frames although {} outputs are pulled in lock-step", max_backlog, outs));
    }
    if ev.live_delta() != 0 || ev.allocs > 0 || ev.reallocs > 0 {
        return Err(format!("bus keeps allocating in a lock-step run of {} frames after warm-up: {:?}", total - warm, ev));
    }
    std::hint::black_box(acc);
    // report "no events" for the common path: growth is what the statement excludes
    Ok((Events::default(), true))
}

fn all_scenarios() -> Vec<(&'static str, ScenarioFn)> {
    let mut v = catalogue();
    v.push(("composition: random adaptor tree (built before arming)", tree_scenario as ScenarioFn));
    v.push(("bus: outputs pulled in lock-step (backlog and live bytes constant)", bus_scenario as ScenarioFn));
    v.extend(graphs::scenarios());
    v
}

pub fn check(c: &Case, st: &mut Stats) -> CheckResult {
    let all = all_scenarios();
    let f = all.iter().find(|(n, _)| *n == c.scenario).ok_or_else(|| format!("bad case: unknown scenario {:?}", c.scenario))?.1;
    ensure!(c.n >= 16, "bad case: fewer than 16 operations");
    let (ev, same) = f(c.seed, c.n)?;
    st.nt(true);
    ensure!(same, "{}: the armed run computed different values from the unarmed run (harness or library is not deterministic)", c.scenario);
    ensure!(
        ev.none(),
        "{}: {} allocations, {} reallocations, {} frees ({} bytes in, {} bytes out) during {} steady-state operations (seed {})",
        c.scenario, ev.allocs, ev.reallocs, ev.frees, ev.bytes_in, ev.bytes_out, c.n, c.seed
    );
    Ok(())
}

fn main() {
    let mut ctx = Ctx::from_args();
    ctx.self_test("allocator", vp_core::alloc::self_test());
    if ctx.id != "C07" {
        eprintln!("vp_alloc: unknown property {}", ctx.id);
        std::process::exit(2);
    }
    ctx.set_rule(
        "cases are (scenario of the catalogue, seed, number of steady-state operations 16..2000); each scenario constructs its state unarmed and then performs the operations with the thread's allocation counters armed; \
         every scenario is run with fixed parameters (enumeration) and with proptest-drawn seeds and lengths; all cases are non-trivial (>= 16 library calls inside the armed region); distinct by (scenario, seed, length)",
    );
    ctx.assume("the counting allocator is thread-local and counts only while armed; results are folded into a checksum that must equal the unarmed run's; the documented exceptions are handled as such: bus (backlog and live bytes constant in lock-step), by_rc (creation outside the armed region), heap-backed storage (never resized: zero events), boxed-slice conversions and construction (not part of the allocation-free surface)");
    ctx.assume("an allocation in an operation that no scenario exercises is invisible to this check");
    let all = all_scenarios();
    let names: Vec<String> = all.iter().map(|(n, _)| n.to_string()).collect();
    ctx.extra("catalogue", serde_json::json!(names));
    let mut cases = Vec::new();
    for name in &names {
        for (seed, n) in [(1u64, 16usize), (0xdead_beef, 257), (42, 1000)] {
            cases.push(Case { scenario: name.clone(), seed, n });
        }
    }
    let total = cases.len() as u64;
    // sequential on purpose: the armed regions are per-thread, and a quiet process keeps the measurement clean
    let _ = total;
    ctx.enumerate("catalogue-fixed-parameters", true, cases.into_iter(), check);
    let names2 = names.clone();
    let strat = (0..names.len(), any::<u64>(), 16usize..2000).prop_map(move |(i, seed, n)| Case { scenario: names2[i].clone(), seed, n });
    ctx.prop("catalogue-random-parameters", ctx.pick(8000, 100_000), strat, check);
    if ctx.thorough() {
        let cases: Vec<Case> = names.iter().map(|n| Case { scenario: n.clone(), seed: 7, n: 200_000 }).collect();
        ctx.enumerate("catalogue-long-runs", true, cases.into_iter(), check);
    }
    std::process::exit(ctx.finish());
}
