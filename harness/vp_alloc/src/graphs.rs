//! C07 — graph scenarios: stock nodes only, first process call(s) unarmed, then armed calls.

use crate::{mix, mixf, xs, ScenarioFn};
use dasp_graph::node::{Delay, GraphNode, Pass, Sum, SumBuffers};
use dasp_graph::{BoxedNode, BoxedNodeSend, Buffer, Input, Node, NodeData, Processor};
use dasp_ring_buffer_reg as rb;
use dasp_signal_reg::Signal as RegSignal;
use petgraph::graph::{Graph, NodeIndex};
use petgraph::stable_graph::StableGraph;
use std::marker::PhantomData;
use vp_core::alloc::{measure, Events};

type G = Graph<NodeData<BoxedNode>, ()>;

fn pass_fn(i: &[Input], o: &mut [Buffer]) {
    Pass.process(i, o)
}

fn source_node(seed: u64, k: usize) -> BoxedNode {
    let mut s = seed ^ (k as u64 * 7919) | 1;
    match k % 3 {
        0 => {
            let sig: Box<dyn RegSignal<Frame = [f32; 2]>> = Box::new(dasp_signal_reg::gen_mut(move || {
                let v = (xs(&mut s) % 2001) as f32 / 1000.0 - 1.0;
                [v, -v]
            }));
            BoxedNode::new(sig)
        }
        1 => {
            let sig: Box<dyn RegSignal<Frame = f32>> = Box::new(dasp_signal_reg::rate(44_100.0).const_hz(220.0 + k as f64).sine().map(|x: f64| x as f32));
            BoxedNode::new(sig)
        }
        _ => {
            let f: Box<dyn FnMut(&[Input], &mut [Buffer])> = Box::new(move |_i, o| {
                for b in o.iter_mut() {
                    for x in b.iter_mut() {
                        *x = (xs(&mut s) % 101) as f32 / 100.0;
                    }
                }
                // "whatever the input values": in half of the seeds some blocks carry a NaN or an infinity
                if seed & 2 != 0 {
                    let c = xs(&mut s);
                    if let Some(b) = o.first_mut() {
                        match c % 9 {
                            0 => b[(c / 9) as usize % 64] = f32::NAN,
                            1 => b[(c / 9) as usize % 64] = f32::INFINITY,
                            2 => b[(c / 9) as usize % 64] = f32::NEG_INFINITY,
                            _ => {}
                        }
                    }
                }
            });
            BoxedNode::new(f)
        }
    }
}

fn inner_graph_node(n_in: usize) -> BoxedNode {
    let mut g: G = Graph::with_capacity(8, 8);
    let out = g.add_node(NodeData::boxed2(SumBuffers));
    let mid = g.add_node(NodeData::boxed2(Sum));
    g.add_edge(mid, out, ());
    let mut ins = Vec::new();
    for _ in 0..n_in {
        let n = g.add_node(NodeData::boxed2(Pass));
        g.add_edge(n, mid, ());
        ins.push(n);
    }
    let mut gn = GraphNode { processor: Processor::with_capacity(0), graph: g, input_nodes: ins, output_node: out, node_type: PhantomData::<BoxedNode> };
    // "once a processor has processed a graph of that size once": warm the inner processor up
    let mut bufs = vec![Buffer::SILENT; 2];
    gn.process(&[], &mut bufs);
    BoxedNode::new(gn)
}

fn processing_node(seed: u64, k: usize) -> BoxedNode {
    match (seed as usize + k) % 8 {
        0 => BoxedNode::new(Sum),
        1 => BoxedNode::new(SumBuffers),
        2 => BoxedNode::new(Pass),
        3 => BoxedNode::new(Delay(vec![rb::Fixed::from(vec![0.0f32; 10 + k]), rb::Fixed::from(vec![0.0f32; 100]), rb::Fixed::from(vec![0.0f32; 64])])),
        4 => BoxedNode::new(Box::new(Sum)),
        5 => BoxedNode::new(BoxedNodeSend::new(SumBuffers)),
        6 => BoxedNode::new(pass_fn as fn(&[Input], &mut [Buffer])),
        _ => inner_graph_node(1 + k % 3),
    }
}

fn build(seed: u64) -> (G, Vec<NodeIndex>) {
    let mut s = seed | 1;
    let n = 2 + (xs(&mut s) % 11) as usize;
    let mut g: G = Graph::with_capacity(0, 0);
    let mut ix = Vec::new();
    for k in 0..n {
        let nb = 1 + (xs(&mut s) % 3) as usize;
        let node = if k < 1 + n / 4 { source_node(seed, k) } else { processing_node(seed, k) };
        ix.push(g.add_node(NodeData::new(node, vec![Buffer::SILENT; nb])));
    }
    let m = (xs(&mut s) % (3 * n as u64 + 1)) as usize;
    for _ in 0..m {
        let a = (xs(&mut s) % n as u64) as usize;
        let b = (xs(&mut s) % n as u64) as usize;
        // processing nodes only as targets; cycles, self-loops and parallel edges allowed
        if b >= 1 + n / 4 {
            g.add_edge(ix[a], ix[b], ());
        }
    }
    (g, ix)
}

fn checksum(g: &G, n: NodeIndex, acc: &mut u64) {
    for b in g[n].buffers.iter() {
        mixf(acc, b[0] as f64 + b[Buffer::LEN - 1] as f64);
    }
}

/// one output node: first process unarmed, then `calls` armed
fn graph_one_output(seed: u64, n: usize) -> Result<(Events, bool), String> {
    let calls = 3 + n / 64;
    let run = |armed: bool| -> (u64, Events) {
        let (mut g, ix) = build(seed);
        let out = *ix.last().unwrap();
        let mut p = Processor::with_capacity(0);
        p.process(&mut g, out);
        let mut acc = 0u64;
        let body = |g: &mut G, p: &mut Processor<G>, acc: &mut u64| {
            for _ in 0..calls {
                p.process(g, out);
                checksum(g, out, acc);
            }
        };
        if armed {
            let (_, ev) = measure(|| body(&mut g, &mut p, &mut acc));
            (acc, ev)
        } else {
            body(&mut g, &mut p, &mut acc);
            (acc, Events::default())
        }
    };
    let (r1, _) = run(false);
    let (r2, ev) = run(true);
    Ok((ev, r1 == r2))
}

/// alternating output nodes of the same graph (each processed once before arming)
fn graph_alternating(seed: u64, n: usize) -> Result<(Events, bool), String> {
    let calls = 4 + n / 64;
    let run = |armed: bool| -> (u64, Events) {
        let (mut g, ix) = build(seed);
        let mut p = Processor::with_capacity(ix.len());
        for &o in &ix {
            p.process(&mut g, o);
        }
        let mut acc = 0u64;
        let mut s = seed | 1;
        let body = |g: &mut G, p: &mut Processor<G>, acc: &mut u64, s: &mut u64| {
            for _ in 0..calls {
                let o = ix[(xs(s) % ix.len() as u64) as usize];
                p.process(g, o);
                checksum(g, o, acc);
                mix(acc, o.index() as u64);
            }
        };
        if armed {
            let (_, ev) = measure(|| body(&mut g, &mut p, &mut acc, &mut s));
            (acc, ev)
        } else {
            body(&mut g, &mut p, &mut acc, &mut s);
            (acc, Events::default())
        }
    };
    let (r1, _) = run(false);
    let (r2, ev) = run(true);
    Ok((ev, r1 == r2))
}

/// StableGraph container with a vacant slot
fn stable_graph(seed: u64, n: usize) -> Result<(Events, bool), String> {
    let calls = 3 + n / 64;
    let run = |armed: bool| -> (u64, Events) {
        let mut g: StableGraph<NodeData<BoxedNode>, ()> = StableGraph::with_capacity(0, 0);
        let a = g.add_node(NodeData::boxed1(source_node(seed, 0)));
        let dead = g.add_node(NodeData::boxed1(Pass));
        let b = g.add_node(NodeData::boxed2(source_node(seed, 2)));
        let sum = g.add_node(NodeData::boxed2(Sum));
        let d = g.add_node(NodeData::boxed2(Delay(vec![rb::Fixed::from(vec![0.0f32; 33]), rb::Fixed::from(vec![0.0f32; 7])])));
        g.add_edge(a, sum, ());
        g.add_edge(dead, sum, ());
        g.add_edge(b, sum, ());
        g.add_edge(sum, d, ());
        g.add_edge(d, sum, ()); // feedback
        g.remove_node(dead);
        let mut p = Processor::with_capacity(0);
        p.process(&mut g, d);
        let mut acc = 0u64;
        let mut body = |acc: &mut u64| {
            for _ in 0..calls {
                p.process(&mut g, d);
                mixf(acc, g[d].buffers[0][5] as f64 + g[d].buffers[1][63] as f64);
            }
        };
        if armed {
            let (_, ev) = measure(|| body(&mut acc));
            (acc, ev)
        } else {
            body(&mut acc);
            (acc, Events::default())
        }
    };
    let (r1, _) = run(false);
    let (r2, ev) = run(true);
    Ok((ev, r1 == r2))
}

/// a wide mixer (hundreds of inputs into one node, far more than any capacity hint) and every channel-count mismatch
fn wide_mixer(seed: u64, n: usize) -> Result<(Events, bool), String> {
    let calls = 3 + n / 256;
    let fan_in = 260 + (seed as usize % 7) * 41 + n % 500;
    let run = |armed: bool| -> (u64, Events) {
        let mut g: G = Graph::with_capacity(0, 0);
        let mix_sum = g.add_node(NodeData::new(BoxedNode::new(Sum), vec![Buffer::SILENT; 2]));
        let mix_all = g.add_node(NodeData::new(BoxedNode::new(SumBuffers), vec![Buffer::SILENT; 1]));
        for k in 0..fan_in {
            let nb = 1 + k % 4;
            let src = g.add_node(NodeData::new(source_node(seed, k), vec![Buffer::SILENT; nb]));
            g.add_edge(src, mix_sum, ());
            if k % 3 == 0 {
                g.add_edge(src, mix_all, ());
                g.add_edge(src, mix_all, ()); // parallel edge
            }
        }
        // channel-count mismatches in both directions
        let up = g.add_node(NodeData::new(BoxedNode::new(Pass), vec![Buffer::SILENT; 5]));
        let down = g.add_node(NodeData::new(BoxedNode::new(Pass), vec![Buffer::SILENT; 1]));
        let up2 = g.add_node(NodeData::new(BoxedNode::new(pass_fn as fn(&[Input], &mut [Buffer])), vec![Buffer::SILENT; 2]));
        let out = g.add_node(NodeData::new(BoxedNode::new(SumBuffers), vec![Buffer::SILENT; 3]));
        g.add_edge(mix_sum, up, ());
        g.add_edge(mix_sum, down, ());
        g.add_edge(mix_all, up2, ());
        for x in [up, down, up2] {
            g.add_edge(x, out, ());
        }
        let mut p = Processor::with_capacity(2);
        p.process(&mut g, out);
        let mut acc = 0u64;
        let body = |g: &mut G, p: &mut Processor<G>, acc: &mut u64| {
            for _ in 0..calls {
                p.process(g, out);
                checksum(g, out, acc);
            }
        };
        if armed {
            let (_, ev) = measure(|| body(&mut g, &mut p, &mut acc));
            (acc, ev)
        } else {
            body(&mut g, &mut p, &mut acc);
            (acc, Events::default())
        }
    };
    let (r1, _) = run(false);
    let (r2, ev) = run(true);
    Ok((ev, r1 == r2))
}

/// outer node type of the nested-width scenario: a typed enum, so that the nested graph stays inspectable after processing
enum ONode {
    Src(u64),
    Nested(GraphNode<G, BoxedNode>),
    Mix,
}
impl Node for ONode {
    fn process(&mut self, inputs: &[Input], output: &mut [Buffer]) {
        match self {
            ONode::Src(s) => {
                for b in output.iter_mut() {
                    for x in b.iter_mut() {
                        *x = (xs(s) % 201) as f32 / 100.0 - 1.0;
                    }
                }
            }
            ONode::Nested(g) => g.process(inputs, output),
            ONode::Mix => Sum.process(inputs, output),
        }
    }
}

/// a nested graph whose designated input nodes own another number of buffers than the outer nodes feeding them: the nodes'
/// buffer vectors are the user's storage and keep the length and capacity they were built with (checked by value, from the
/// very first call on), and the steady state allocates nothing
fn nested_widths(seed: u64, n: usize) -> Result<(Events, bool), String> {
    let calls = 3 + n / 64;
    let widths: Vec<(usize, usize)> = (0..3).map(|k| (1 + ((seed as usize / 3 + k) % 3), 1 + ((seed as usize + 2 * k) % 3))).collect();
    let run = |armed: bool| -> Result<(u64, Events), String> {
        let mut inner: G = Graph::with_capacity(0, 0);
        let out_i = inner.add_node(NodeData::new(BoxedNode::new(Sum), vec![Buffer::SILENT; 2]));
        let mut ins = Vec::new();
        for &(_, wi) in &widths {
            let mut v = Vec::with_capacity(wi);
            v.resize(wi, Buffer::SILENT);
            let i = inner.add_node(NodeData::new(BoxedNode::new(Pass), v));
            inner.add_edge(i, out_i, ());
            ins.push(i);
        }
        let built: Vec<(usize, usize)> = ins.iter().map(|&i| (inner[i].buffers.len(), inner[i].buffers.capacity())).collect();
        let gn = GraphNode { processor: Processor::with_capacity(0), graph: inner, input_nodes: ins.clone(), output_node: out_i, node_type: PhantomData::<BoxedNode> };
        let mut g: Graph<NodeData<ONode>, ()> = Graph::with_capacity(0, 0);
        let nested = g.add_node(NodeData::new(ONode::Nested(gn), vec![Buffer::SILENT; 2]));
        for (k, &(wo, _)) in widths.iter().enumerate() {
            let s = g.add_node(NodeData::new(ONode::Src(seed ^ (k as u64 * 77) | 1), vec![Buffer::SILENT; wo]));
            g.add_edge(s, nested, ());
        }
        let out = g.add_node(NodeData::new(ONode::Mix, vec![Buffer::SILENT; 2]));
        g.add_edge(nested, out, ());
        let mut p = Processor::with_capacity(0);
        let unchanged = |g: &Graph<NodeData<ONode>, ()>, when: &str| -> Result<(), String> {
            if let ONode::Nested(gn) = &g[nested].node {
                for (j, &i) in ins.iter().enumerate() {
                    let now = (gn.graph[i].buffers.len(), gn.graph[i].buffers.capacity());
                    if now != built[j] {
                        return Err(format!(
                            "graph: nested graph fed by nodes of other widths: input node {} of the nested graph was built with {} buffers (capacity {}), the outer nodes feeding the nested graph own {:?} buffers; {} it has {} buffers (capacity {}): user-supplied storage was resized",
                            j, built[j].0, built[j].1, widths.iter().map(|w| w.0).collect::<Vec<_>>(), when, now.0, now.1
                        ));
                    }
                }
            }
            Ok(())
        };
        p.process(&mut g, out);
        unchanged(&g, "after the first process call")?;
        let mut acc = 0u64;
        let mut body = |g: &mut Graph<NodeData<ONode>, ()>, acc: &mut u64| {
            for _ in 0..calls {
                p.process(g, out);
                for b in g[out].buffers.iter() {
                    mixf(acc, b[0] as f64 + b[Buffer::LEN - 1] as f64);
                }
            }
        };
        let ev = if armed {
            let (_, ev) = measure(|| body(&mut g, &mut acc));
            ev
        } else {
            body(&mut g, &mut acc);
            Events::default()
        };
        unchanged(&g, "after the run")?;
        Ok((acc, ev))
    };
    let (r1, _) = run(false)?;
    let (r2, ev) = run(true)?;
    Ok((ev, r1 == r2))
}

pub fn scenarios() -> Vec<(&'static str, ScenarioFn)> {
    vec![
        ("graph: random graph of stock nodes and wrappers, one output node", graph_one_output as ScenarioFn),
        ("graph: alternating output nodes of one graph", graph_alternating as ScenarioFn),
        ("graph: StableGraph with a vacant slot and feedback through a delay", stable_graph as ScenarioFn),
        ("graph: wide mixer (260..1000 inputs into one node) and channel-count mismatches in both directions", wide_mixer as ScenarioFn),
        ("graph: nested graph whose input nodes own other buffer counts than the nodes feeding them (storage keeps its length and capacity)", nested_widths as ScenarioFn),
    ]
}
