//! C14 — buffered signals are a transparent prefetch of the source.

use crate::probe::{Coded, Counters, Probe};
use dasp_ring_buffer::Bounded;
use dasp_signal::Signal;
use proptest::prelude::*;
use serde::{Deserialize, Serialize};
use std::collections::VecDeque;
use vp_core::{ensure, CheckResult, Ctx, Stats};

#[derive(Clone, Debug, PartialEq, Eq, Serialize, Deserialize)]
pub enum Op {
    Next,
    /// next_frames(), take k items, drop the iterator
    NextFrames(usize),
    IsExhausted,
    /// next_frames().nth(k): consumes k+1 frames of the batch (or all of it) and yields the last one
    NextFramesNth(usize),
    /// next_frames().count() / .last(): consumes the whole batch
    NextFramesCount,
    NextFramesLast,
}

#[derive(Clone, Debug, Serialize, Deserialize)]
pub struct Case {
    pub cap: usize,
    pub start: usize,
    pub prefill: usize,
    pub src_len: Option<u64>,
    pub int_frames: bool,
    pub ops: Vec<Op>,
    /// after the ops, drain with until_exhausted() (finite sources only)
    pub drain: bool,
    /// finite sources only: this many frames are still index-coded after the source reports exhaustion
    #[serde(default)]
    pub tail: u64,
    /// the adaptor is built over a borrow of the source (`source.by_ref().buffered(..)`) instead of owning it
    #[serde(default)]
    pub borrowed: bool,
}

const PREFILL_BASE: u64 = 20_000;

fn run_typed<F: Coded>(c: &Case, st: &mut Stats) -> CheckResult {
    ensure!(c.cap >= 1 && c.start < c.cap && c.prefill <= c.cap, "bad case: invalid raw parts");
    let counters = Counters::new();
    let probe: Probe<F> = Probe::with_tail(c.src_len, c.tail, counters.clone());
    // storage: dead slots hold a value that decodes to a code no stream position ever has
    let mut slots: Vec<F> = vec![F::code(F::CODES - 1); c.cap];
    for i in 0..c.prefill {
        slots[(c.start + i) % c.cap] = F::code(PREFILL_BASE + i as u64);
    }
    let rb = Bounded::from_raw_parts(c.start, c.prefill, slots);
    if c.borrowed {
        let mut probe = probe;
        st.class("source borrowed (by_ref) rather than owned");
        drive::<F, _>(probe.by_ref().buffered(rb), c, st, &counters)
    } else {
        drive::<F, _>(probe.buffered(rb), c, st, &counters)
    }
}

fn drive<F: Coded, S: Signal<Frame = F>>(mut buffered: dasp_signal::Buffered<S, Vec<F>>, c: &Case, st: &mut Stats, counters: &Counters) -> CheckResult {
    // nothing has run empty on demand yet: building the adaptor pulls nothing
    ensure!(counters.pulls() == 0, "buffered() pulled {} source frames at construction (before anything was read)", counters.pulls());
    let ex0 = buffered.is_exhausted();
    ensure!(ex0 == (c.prefill == 0 && c.src_len == Some(0)), "straight after construction is_exhausted() = {} ({} frames pre-filled, source length {:?})", ex0, c.prefill, c.src_len);
    // model: queue of expected stream elements currently buffered; `None` = equilibrium padding
    let mut q: VecDeque<Option<u64>> = (0..c.prefill).map(|i| Some(PREFILL_BASE + i as u64)).collect();
    let mut src_pos: u64 = 0;
    let cap = c.cap as u64;
    let mut refill = |q: &mut VecDeque<Option<u64>>, src_pos: &mut u64| {
        for _ in 0..cap {
            let e = Probe::<F>::expected(c.src_len, c.tail, *src_pos);
            q.push_back(e);
            *src_pos += 1;
        }
    };
    let same = |got: F, exp: Option<u64>| -> bool {
        match exp {
            Some(e) => got.decode() == Some(e),
            None => got.is_equilibrium(),
        }
    };
    let mut partial_batch = false;
    for (k, op) in c.ops.iter().enumerate() {
        let pulls_before = counters.pulls();
        let was_empty = q.is_empty();
        match op {
            Op::Next => {
                if q.is_empty() {
                    refill(&mut q, &mut src_pos);
                }
                let exp = q.pop_front().unwrap();
                let got = buffered.next();
                ensure!(same(got, exp), "op #{} next(): got {:?} (frame {:?}), expected stream element {:?}", k, got, got.decode(), exp);
            }
            Op::NextFrames(take) => {
                if q.is_empty() {
                    refill(&mut q, &mut src_pos);
                }
                let avail = q.len();
                let mut it = buffered.next_frames();
                for j in 0..*take {
                    match (it.next(), q.front().copied()) {
                        (Some(got), Some(exp)) => {
                            q.pop_front();
                            ensure!(same(got, exp), "op #{} next_frames() item {}: got {:?} (frame {:?}), expected {:?}", k, j, got, got.decode(), exp);
                        }
                        (None, None) => break,
                        (g, e) => return Err(format!("op #{} next_frames() item {}: iterator gave {:?}, model has {:?} ({} frames were buffered)", k, j, g, e, avail)),
                    }
                }
                if *take < avail {
                    partial_batch = true;
                }
            }
            Op::IsExhausted => {}
            Op::NextFramesCount | Op::NextFramesLast => {
                if q.is_empty() {
                    refill(&mut q, &mut src_pos);
                }
                let avail = q.len();
                let last = q.back().copied();
                q.clear();
                if matches!(op, Op::NextFramesCount) {
                    let got = buffered.next_frames().count();
                    ensure!(got == avail, "op #{} next_frames().count() = {}, the batch held {} frames", k, got, avail);
                } else {
                    let got = buffered.next_frames().last();
                    match (got, last) {
                        (Some(g), Some(e)) => ensure!(same(g, e), "op #{} next_frames().last() = {:?} (frame {:?}), expected stream element {:?}", k, g, g.decode(), e),
                        (None, None) => {}
                        (g, e) => return Err(format!("op #{} next_frames().last() gave {:?}, model {:?}", k, g, e)),
                    }
                }
            }
            Op::NextFramesNth(kth) => {
                if q.is_empty() {
                    refill(&mut q, &mut src_pos);
                }
                let avail = q.len();
                let got = buffered.next_frames().nth(*kth);
                let mut exp: Option<Option<u64>> = None;
                for _ in 0..=*kth {
                    exp = q.pop_front();
                    if exp.is_none() {
                        break;
                    }
                }
                match (got, exp) {
                    (Some(g), Some(e)) => ensure!(same(g, e), "op #{} next_frames().nth({}): got {:?} (frame {:?}), expected stream element {:?}", k, kth, g, g.decode(), e),
                    (None, None) => {}
                    (g, e) => return Err(format!("op #{} next_frames().nth({}): iterator gave {:?}, model {:?} ({} frames were buffered)", k, kth, g, e, avail)),
                }
                if *kth + 1 < avail {
                    partial_batch = true;
                }
            }
        }
        let pulled = counters.pulls() - pulls_before;
        let exp_pulled = if was_empty && !matches!(op, Op::IsExhausted) { cap } else { 0 };
        ensure!(pulled == exp_pulled, "op #{} {:?}: pulled {} source frames, expected {} (buffer was {} before the call)", k, op, pulled, exp_pulled, if was_empty { "empty" } else { "non-empty" });
        let ex = buffered.is_exhausted();
        let exp_ex = q.is_empty() && c.src_len.map_or(false, |n| src_pos >= n);
        ensure!(ex == exp_ex, "after op #{} {:?}: is_exhausted() = {}, expected {} ({} frames buffered, source position {})", k, op, ex, exp_ex, q.len(), src_pos);
    }
    if c.drain {
        if let Some(n) = c.src_len {
            // drain to exhaustion: remaining buffered frames, then the rest of the source, then fewer than one buffer of padding
            let mut expect: Vec<Option<u64>> = q.iter().copied().collect();
            let mut pos = src_pos;
            while pos < n {
                for _ in 0..cap {
                    expect.push(Probe::<F>::expected(Some(n), c.tail, pos));
                    pos += 1;
                }
            }
            let got: Vec<F> = buffered.until_exhausted().take(expect.len() + 3 * c.cap + 3).collect();
            ensure!(got.len() == expect.len(), "draining with until_exhausted() yielded {} frames, expected {}", got.len(), expect.len());
            for (i, (g, e)) in got.iter().zip(&expect).enumerate() {
                ensure!(same(*g, *e), "drained frame {}: got {:?}, expected {:?}", i, g, e);
            }
            let padding = expect.iter().rev().take_while(|e| e.is_none()).count();
            ensure!(padding < c.cap || expect.iter().all(|e| e.is_none()), "harness: padding {} >= capacity {}", padding, c.cap);
            st.class("drained to exhaustion");
        }
    }
    st.nt(c.start != 0 || c.cap == 1 || c.src_len.map_or(false, |n| n % cap != 0) || partial_batch);
    st.class_if(c.start != 0 && c.prefill > 0, "pre-fill with start != 0");
    st.class_if(c.cap == 1, "capacity 1");
    st.class_if(c.src_len.map_or(false, |n| n % cap != 0), "source length not a multiple of capacity");
    st.class_if(partial_batch, "partially drained batch");
    st.class_if(c.src_len.is_some() && c.tail > 0, "source reports exhaustion while still yielding frames");
    Ok(())
}

pub fn check(c: &Case, st: &mut Stats) -> CheckResult {
    if c.int_frames {
        run_typed::<[i16; 2]>(c, st)
    } else {
        run_typed::<f32>(c, st)
    }
}

fn all_op_strings(len: usize, cap: usize) -> Vec<Vec<Op>> {
    let mut alphabet = vec![Op::Next];
    for k in 0..=cap {
        alphabet.push(Op::NextFrames(k));
    }
    alphabet.push(Op::NextFramesNth(0));
    alphabet.push(Op::NextFramesNth(cap / 2 + 1));
    alphabet.push(Op::NextFramesCount);
    let mut out: Vec<Vec<Op>> = vec![vec![]];
    for _ in 0..len {
        let mut next = Vec::new();
        for s in &out {
            for a in &alphabet {
                let mut t = s.clone();
                t.push(a.clone());
                next.push(t);
            }
        }
        out = next;
    }
    out
}

pub fn case_strategy() -> impl Strategy<Value = Case> {
    (prop_oneof![2 => 1usize..=5, 1 => 1usize..=32]).prop_flat_map(|cap| {
        (
            0..cap,
            0..=cap,
            prop_oneof![1 => Just(None), 3 => (0u64..200).prop_map(Some)],
            any::<bool>(),
            proptest::collection::vec(prop_oneof![4 => Just(Op::Next), 3 => (0..=cap + 1).prop_map(Op::NextFrames), 1 => Just(Op::IsExhausted), 1 => (0..=cap + 1).prop_map(Op::NextFramesNth), 1 => Just(Op::NextFramesCount), 1 => Just(Op::NextFramesLast)], 0..120),
            any::<bool>(),
            prop_oneof![2 => Just(0u64), 1 => 1u64..12],
        )
            .prop_map(move |(start, prefill, src_len, int_frames, ops, drain, tail)| Case { cap, start, prefill, src_len, int_frames, ops, drain, tail, borrowed: (tail + start as u64) % 3 == 1 })
    })
}

pub fn run(ctx: &mut Ctx) {
    ctx.set_rule(
        "cases are (capacity, start offset, pre-fill length, source length, frame type, sequence of next() | next_frames().take(k) | is_exhausted(), drain flag); every capacity 1..=4 (thorough 5) x every \
         valid (start, pre-fill) x source lengths 0..=9 (12) x every operation string of length up to 4 (5) over next and next_frames().take(0..=capacity); proptest cases with capacity up to 32, sources up to 200 \
         frames and up to 120 operations; non-trivial: pre-fill with start != 0, capacity 1, source length not a multiple of the capacity, or a partially drained batch",
    );
    ctx.assume("expected stream = pre-filled frames, then the probe's index-coded frames, then equilibrium; the probe's pull counter must jump by exactly the capacity when (and only when) the buffer was empty at the call");
    for c in ["pre-fill with start != 0", "capacity 1", "source length not a multiple of capacity", "partially drained batch", "drained to exhaustion", "source reports exhaustion while still yielding frames"] {
        ctx.require_class(c);
    }
    let max_cap = ctx.pick(4usize, 5);
    let max_ops = ctx.pick(4usize, 5);
    let max_src = ctx.pick(9u64, 12);
    let mut cases = Vec::new();
    for cap in 1..=max_cap {
        let strings: Vec<Vec<Op>> = (0..=max_ops).flat_map(|l| all_op_strings(l, cap)).collect();
        for start in 0..cap {
            for prefill in 0..=cap {
                for src in 0..=max_src {
                    for ops in &strings {
                        let k = cases.len();
                        cases.push(Case { cap, start, prefill, src_len: Some(src), int_frames: k % 2 == 0, ops: ops.clone(), drain: true, tail: (k % 3) as u64, borrowed: k % 4 == 1 });
                    }
                }
            }
        }
    }
    let n = cases.len() as u64;
    ctx.par_enumerate("all-small-configurations", true, n, move |i| cases[i as usize].clone(), check);
    ctx.prop("random-configurations", ctx.pick(20_000, 300_000), case_strategy(), check);
}
