//! Instrumented sources (DESIGN §3.4): a `Signal` that counts `next()` / `is_exhausted()` calls in
//! shared cells (no allocation per call) and yields frames that encode their own index, so a
//! skipped, repeated or reordered frame is identifiable from the value alone.

use dasp_frame::Frame;
use dasp_signal::Signal;
use std::cell::Cell;
use std::rc::Rc;

/// frames that carry an index
pub trait Coded: Frame + std::fmt::Debug {
    /// number of distinct codes
    const CODES: u64;
    fn code(i: u64) -> Self;
    /// `None` when the frame is not a valid code (e.g. channels disagree)
    fn decode(self) -> Option<u64>;
    fn is_equilibrium(self) -> bool {
        self == Self::EQUILIBRIUM
    }
}

// code 0 is never equilibrium: index i is stored as amplitude i+1
impl Coded for f64 {
    const CODES: u64 = 1 << 40;
    fn code(i: u64) -> Self {
        (i + 1) as f64 / (1u64 << 41) as f64
    }
    fn decode(self) -> Option<u64> {
        let v = self * (1u64 << 41) as f64;
        if v >= 1.0 && v.fract() == 0.0 {
            Some(v as u64 - 1)
        } else {
            None
        }
    }
}
impl Coded for f32 {
    const CODES: u64 = 1 << 22;
    fn code(i: u64) -> Self {
        (i + 1) as f32 / (1u64 << 23) as f32
    }
    fn decode(self) -> Option<u64> {
        let v = self * (1u64 << 23) as f32;
        if v >= 1.0 && v.fract() == 0.0 {
            Some(v as u64 - 1)
        } else {
            None
        }
    }
}
impl Coded for [f32; 2] {
    const CODES: u64 = 1 << 22;
    fn code(i: u64) -> Self {
        [f32::code(i), -f32::code(i)]
    }
    fn decode(self) -> Option<u64> {
        if self[1] == -self[0] {
            self[0].decode()
        } else {
            None
        }
    }
}
impl Coded for [f64; 4] {
    const CODES: u64 = 1 << 40;
    fn code(i: u64) -> Self {
        let c = f64::code(i);
        [c, -c, c / 2.0, -c / 2.0]
    }
    fn decode(self) -> Option<u64> {
        if self[1] == -self[0] && self[2] == self[0] / 2.0 && self[3] == -self[0] / 2.0 {
            self[0].decode()
        } else {
            None
        }
    }
}
impl Coded for i16 {
    const CODES: u64 = 32_000;
    fn code(i: u64) -> Self {
        (i % Self::CODES) as i16 + 1
    }
    fn decode(self) -> Option<u64> {
        if self >= 1 {
            Some(self as u64 - 1)
        } else {
            None
        }
    }
}
impl Coded for [i16; 2] {
    const CODES: u64 = 32_000;
    fn code(i: u64) -> Self {
        [i16::code(i), -i16::code(i)]
    }
    fn decode(self) -> Option<u64> {
        if self[1] == -self[0] {
            self[0].decode()
        } else {
            None
        }
    }
}
impl Coded for [i32; 2] {
    const CODES: u64 = 1 << 30;
    fn code(i: u64) -> Self {
        [(i + 1) as i32, -((i + 1) as i32)]
    }
    fn decode(self) -> Option<u64> {
        if self[1] == -self[0] && self[0] >= 1 {
            Some(self[0] as u64 - 1)
        } else {
            None
        }
    }
}
impl Coded for u8 {
    const CODES: u64 = 120;
    fn code(i: u64) -> Self {
        129 + (i % Self::CODES) as u8
    }
    fn decode(self) -> Option<u64> {
        if self >= 129 {
            Some(self as u64 - 129)
        } else {
            None
        }
    }
}
impl Coded for [u8; 3] {
    const CODES: u64 = 120;
    fn code(i: u64) -> Self {
        let c = u8::code(i);
        [c, 255 - (c - 129), c]
    }
    fn decode(self) -> Option<u64> {
        if self[2] == self[0] && self[0] >= 129 && self[1] == 255 - (self[0] - 129) {
            self[0].decode()
        } else {
            None
        }
    }
}

#[derive(Clone, Default)]
pub struct Counters {
    pub pulls: Rc<Cell<u64>>,
    pub exhausted_queries: Rc<Cell<u64>>,
}
impl Counters {
    pub fn new() -> Self {
        Self::default()
    }
    pub fn pulls(&self) -> u64 {
        self.pulls.get()
    }
}

/// frame k = `F::code(k)`; finite (`len = Some(n)`: reports exhaustion exactly after n pulls) or infinite.
/// `tail` further frames are still index-coded after exhaustion is reported ("exhausted but still sounding",
/// like `long.add_amp(short)` built from dasp's own adaptors); equilibrium after that.
pub struct Probe<F> {
    pub counters: Counters,
    pub len: Option<u64>,
    pub tail: u64,
    pos: u64,
    _f: core::marker::PhantomData<F>,
}

impl<F> Clone for Probe<F> {
    /// a clone continues from the same position and shares the counters
    fn clone(&self) -> Self {
        Probe { counters: self.counters.clone(), len: self.len, tail: self.tail, pos: self.pos, _f: core::marker::PhantomData }
    }
}

impl<F: Coded> Probe<F> {
    pub fn new(len: Option<u64>, counters: Counters) -> Self {
        Probe { counters, len, tail: 0, pos: 0, _f: core::marker::PhantomData }
    }
    pub fn with_tail(len: Option<u64>, tail: u64, counters: Counters) -> Self {
        Probe { counters, len, tail, pos: 0, _f: core::marker::PhantomData }
    }
    /// what frame k of a probe (len, tail) is: Some(k) while coded, None for equilibrium
    pub fn expected(len: Option<u64>, tail: u64, k: u64) -> Option<u64> {
        match len {
            Some(n) if k >= n + tail => None,
            _ => Some(k),
        }
    }
}

impl<F: Coded> Signal for Probe<F> {
    type Frame = F;
    fn next(&mut self) -> F {
        self.counters.pulls.set(self.counters.pulls.get() + 1);
        let p = self.pos;
        self.pos += 1;
        match self.len {
            Some(n) if p >= n + self.tail => F::EQUILIBRIUM,
            _ => F::code(p),
        }
    }
    fn is_exhausted(&self) -> bool {
        self.counters.exhausted_queries.set(self.counters.exhausted_queries.get() + 1);
        match self.len {
            Some(n) => self.pos >= n,
            None => false,
        }
    }
}

/// a probe over explicit frames (then equilibrium)
pub struct VecProbe<F> {
    pub counters: Counters,
    pub frames: Vec<F>,
    pos: usize,
    pub infinite_tail: bool,
}
impl<F: Frame> VecProbe<F> {
    pub fn new(frames: Vec<F>, counters: Counters) -> Self {
        VecProbe { counters, frames, pos: 0, infinite_tail: false }
    }
}
impl<F: Frame> Signal for VecProbe<F> {
    type Frame = F;
    fn next(&mut self) -> F {
        self.counters.pulls.set(self.counters.pulls.get() + 1);
        let p = self.pos;
        self.pos += 1;
        self.frames.get(p).copied().unwrap_or(F::EQUILIBRIUM)
    }
    fn is_exhausted(&self) -> bool {
        self.counters.exhausted_queries.set(self.counters.exhausted_queries.get() + 1);
        !self.infinite_tail && self.pos >= self.frames.len()
    }
}
