fn main() {
    let mut ctx = vp_core::Ctx::from_args();
    ctx.self_test("allocator", vp_core::alloc::self_test());
    match ctx.id.as_str() {
        "C06" => vp_buf::c06::run(&mut ctx),
        "C10" => vp_buf::c10::run(&mut ctx),
        "C12" => vp_buf::c12::run(&mut ctx),
        "C13" => vp_buf::c13::run(&mut ctx),
        "C14" => vp_buf::c14::run(&mut ctx),
        other => {
            eprintln!("vp_buf: unknown property {}", other);
            std::process::exit(2);
        }
    }
    std::process::exit(ctx.finish());
}
