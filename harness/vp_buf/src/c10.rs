//! C10 — sample<->frame slice views are lossless, in-place and total; in-place slice ops are safe.

use dasp_frame::Frame;
use dasp_sample::{I24, U48};
use dasp_slice as ds;
use dasp_slice::{
    FromBoxedFrameSlice, FromBoxedSampleSlice, FromFrameSlice, FromFrameSliceMut, FromSampleSlice, FromSampleSliceMut,
    ToBoxedFrameSlice, ToBoxedSampleSlice, ToFrameSlice, ToFrameSliceMut, ToSampleSlice, ToSampleSliceMut,
};
use proptest::prelude::*;
use serde::{Deserialize, Serialize};
use vp_core::alloc::measure;
use vp_core::fmt::{Fmt, Kind, Val};
use vp_core::{ensure, pan, CheckResult, Ctx, Stats};

#[derive(Clone, Copy, Debug, PartialEq, Eq, Serialize, Deserialize)]
pub enum Mode {
    Shared,
    Mutable,
    Boxed,
}

#[derive(Clone, Debug, Serialize, Deserialize)]
pub struct ViewCase {
    pub kind: Kind,
    pub n: usize,
    pub len: usize,
    pub mode: Mode,
    /// shared / mutable views are taken over `buffer[offset .. offset + len]` of a larger buffer, so the viewed slice has
    /// a real position even when it is empty
    #[serde(default)]
    pub offset: usize,
}

pub const VIEW_KINDS: [Kind; 6] = [
    Kind::Int { bits: 8, signed: false },
    Kind::Int { bits: 16, signed: true },
    Kind::Int { bits: 24, signed: true },
    Kind::F32,
    Kind::F64,
    Kind::Int { bits: 48, signed: false },
];

/// i-th sample value of a format (distinct for i < 251, never equilibrium-only)
fn nth(k: Kind, i: usize) -> Val {
    match k {
        Kind::Int { .. } => Val::I(k.min_raw() + 1 + (i % 251) as i128),
        Kind::F32 => Val::F32(1.0 + i as f32 * 0.5),
        Kind::F64 => Val::F64(1.0 + i as f64 * 0.5),
    }
}

fn views<S, const N: usize>(c: &ViewCase, st: &mut Stats) -> CheckResult
where
    S: Fmt,
    [S; N]: Frame<Sample = S>,
    for<'a> &'a [S]: ToFrameSlice<'a, [S; N]> + FromFrameSlice<'a, [S; N]>,
    for<'a> &'a mut [S]: ToFrameSliceMut<'a, [S; N]> + FromFrameSliceMut<'a, [S; N]>,
    for<'a> &'a [[S; N]]: ToSampleSlice<'a, S> + FromSampleSlice<'a, S>,
    for<'a> &'a mut [[S; N]]: ToSampleSliceMut<'a, S> + FromSampleSliceMut<'a, S>,
    Box<[S]>: ToBoxedFrameSlice<[S; N]> + FromBoxedFrameSlice<[S; N]>,
    Box<[[S; N]]>: ToBoxedSampleSlice<S> + FromBoxedSampleSlice<S>,
{
    let l = c.len;
    let divisible = l % N == 0;
    let k = S::KIND;
    st.nt(N >= 3 || !divisible || l == 0 || c.mode == Mode::Boxed || k != Kind::F32);
    st.class_if(!divisible, "N does not divide L");
    st.class_if(l == 0, "L = 0");
    let what = format!("{} samples as [{}; {}] ({:?})", l, S::name(), N, c.mode);
    let samples: Vec<S> = (0..l).map(|i| S::from_val(nth(k, i))).collect();
    let off = c.offset;
    // backing[off + i] == samples[i]; one extra element behind the viewed range
    let backing: Vec<S> = (0..off + l + 1).map(|j| S::from_val(if j >= off { nth(k, j - off) } else { nth(k, 249 - j % 200) })).collect();
    st.class_if(off > 0 && l == 0 && c.mode != Mode::Boxed, "empty slice at a non-zero offset of a buffer");
    match c.mode {
        Mode::Shared => {
            let view: &[S] = &backing[off..off + l];
            let sp = view.as_ptr();
            let samples = view;
            // every entry point
            let a: Option<&[[S; N]]> = ds::to_frame_slice(&samples[..]);
            let b: Option<&[[S; N]]> = (&samples[..]).to_frame_slice();
            let d: Option<&[[S; N]]> = ds::from_sample_slice(&samples[..]);
            let e: Option<&[[S; N]]> = FromSampleSlice::from_sample_slice(&samples[..]);
            for (name, v) in [("to_frame_slice", a), ("ToFrameSlice::to_frame_slice", b), ("from_sample_slice", d), ("FromSampleSlice::from_sample_slice", e)] {
                ensure!(v.is_some() == divisible, "{}: {} returned {}", what, name, if v.is_some() { "Some" } else { "None" });
                if let Some(fr) = v {
                    ensure!(fr.len() == l / N, "{}: {} gives {} frames, expected {}", what, name, fr.len(), l / N);
                    ensure!(fr.as_ptr() as *const S == sp, "{}: {} does not view the same memory", what, name);
                    for (i, f) in fr.iter().enumerate() {
                        for ch in 0..N {
                            ensure!(f[ch] == samples[i * N + ch], "{}: {} frame {} channel {} is not sample {}", what, name, i, ch, i * N + ch);
                        }
                    }
                    // inverse
                    let back: &[S] = ds::to_sample_slice(fr);
                    let back2: &[S] = ds::from_frame_slice(fr);
                    let back3: &[S] = fr.to_sample_slice();
                    for bk in [back, back2, back3] {
                        ensure!(bk.len() == l && bk.as_ptr() == sp, "{}: inverse view has len {} (expected {}) or a different pointer", what, bk.len(), l);
                    }
                }
            }
        }
        Mode::Mutable => {
            let mut whole = backing.clone();
            let sp = whole[off..].as_ptr();
            let buf: &mut [S] = &mut whole[off..off + l];
            {
                let v: Option<&mut [[S; N]]> = ds::to_frame_slice_mut(&mut buf[..]);
                ensure!(v.is_some() == divisible, "{}: to_frame_slice_mut returned {}", what, if v.is_some() { "Some" } else { "None" });
                if let Some(fr) = v {
                    ensure!(fr.len() == l / N && fr.as_ptr() as *const S == sp, "{}: mutable view has wrong length or does not view the same memory", what);
                    // write one marker through the view, at a position derived from the case
                    if l > 0 {
                        let (fi, ch) = ((l / 2) / N, (l / 2) % N);
                        fr[fi][ch] = S::from_val(nth(k, 250));
                    }
                    let back: &mut [S] = ds::to_sample_slice_mut(fr);
                    ensure!(back.len() == l && back.as_ptr() == sp, "{}: inverse mutable view has len {} or a different pointer", what, back.len());
                }
            }
            if divisible && l > 0 {
                for i in 0..l {
                    let exp = if i == l / 2 { S::from_val(nth(k, 250)) } else { samples[i] };
                    ensure!(buf[i] == exp, "{}: after writing frame view element {}, sample {} is {:?} (expected {:?})", what, l / 2, i, buf[i], exp);
                }
            }
            let v2: Option<&mut [[S; N]]> = (&mut buf[..]).to_frame_slice_mut();
            ensure!(v2.is_some() == divisible, "{}: ToFrameSliceMut::to_frame_slice_mut", what);
            if let Some(fr) = &v2 {
                ensure!(fr.len() == l / N && fr.as_ptr() as *const S == sp, "{}: ToFrameSliceMut::to_frame_slice_mut has wrong length or does not view the same memory", what);
            }
            let v3: Option<&mut [[S; N]]> = ds::from_sample_slice_mut(&mut buf[..]);
            ensure!(v3.is_some() == divisible, "{}: from_sample_slice_mut", what);
            if let Some(fr) = &v3 {
                ensure!(fr.len() == l / N && fr.as_ptr() as *const S == sp, "{}: from_sample_slice_mut has wrong length or does not view the same memory", what);
            }
            // nothing outside the viewed range was touched
            for j in (0..off).chain(off + l..off + l + 1) {
                ensure!(whole[j] == backing[j], "{}: element {} outside the viewed range [{}, {}) changed", what, j, off, off + l);
            }
            if divisible {
                let mut frames: Vec<[S; N]> = (0..l / N).map(|i| core::array::from_fn(|ch| samples[i * N + ch])).collect();
                let fp = frames.as_ptr() as *const S;
                let s1: &mut [S] = ds::from_frame_slice_mut(&mut frames[..]);
                ensure!(s1.len() == l && s1.as_ptr() == fp, "{}: from_frame_slice_mut", what);
                for i in 0..l {
                    ensure!(s1[i] == samples[i], "{}: from_frame_slice_mut sample {} differs", what, i);
                }
            }
        }
        Mode::Boxed => {
            st.class_if(!divisible, "failed boxed conversion");
            // pre-build outside the armed region nothing: the whole life cycle is measured
            let mut verdict: Result<(), String> = Ok(());
            let mut data_ptr_ok = true;
            let mut contents_ok = true;
            let mut got_some = false;
            let (_, ev) = measure(|| {
                let boxed: Box<[S]> = samples.clone().into_boxed_slice();
                let p0 = boxed.as_ptr();
                let (conv, evc) = measure_inner(|| ds::to_boxed_frame_slice::<_, [S; N]>(boxed));
                match conv {
                    Some(fr) => {
                        got_some = true;
                        if !evc.none() {
                            verdict = Err(format!("successful boxed conversion touched the allocator: {:?}", evc));
                        }
                        data_ptr_ok &= fr.as_ptr() as *const S == p0 || l == 0;
                        data_ptr_ok &= fr.len() == l / N;
                        for (i, f) in fr.iter().enumerate() {
                            for ch in 0..N {
                                contents_ok &= f[ch] == samples[i * N + ch];
                            }
                        }
                        let (back, evb) = measure_inner(|| ds::to_boxed_sample_slice(fr));
                        if !evb.none() {
                            verdict = Err(format!("boxed frame->sample conversion touched the allocator: {:?}", evb));
                        }
                        data_ptr_ok &= back.as_ptr() == p0 || l == 0;
                        data_ptr_ok &= back.len() == l;
                        let again: Option<Box<[[S; N]]>> = FromBoxedSampleSlice::from_boxed_sample_slice(back);
                        match again {
                            Some(fr2) => {
                                let b2: Box<[S]> = FromBoxedFrameSlice::from_boxed_frame_slice(fr2);
                                data_ptr_ok &= b2.len() == l;
                                drop(b2);
                            }
                            None => contents_ok = false,
                        }
                    }
                    None => {}
                }
            });
            verdict.map_err(|e| format!("{}: {}", what, e))?;
            ensure!(got_some == divisible, "{}: to_boxed_frame_slice returned {}", what, if got_some { "Some" } else { "None" });
            ensure!(data_ptr_ok, "{}: boxed conversion did not reuse the allocation (pointer or length changed)", what);
            ensure!(contents_ok, "{}: boxed conversion changed the contents", what);
            // clone().into_boxed_slice(): allocations made inside the region must all be released
            ensure!(
                ev.live_delta() == 0 && ev.allocs + ev.reallocs >= ev.frees && ev.frees >= (l > 0) as u64,
                "{}: {} bytes still allocated after the boxed slice went through {} conversion ({:?})",
                what, ev.live_delta(), if divisible { "a successful" } else { "a failed" }, ev
            );
            ensure!(ev.frees <= ev.allocs, "{}: more frees than allocations ({:?})", what, ev);
        }
    }
    Ok(())
}

/// nested measurement: counters are monotone per thread, so take differences by hand
fn measure_inner<R>(f: impl FnOnce() -> R) -> (R, vp_core::alloc::Events) {
    let (before_r, _) = (vp_core::alloc::snapshot_armed(), ());
    let r = f();
    let after = vp_core::alloc::snapshot_armed();
    (r, after.since(before_r))
}

fn views_kind<S>(c: &ViewCase, st: &mut Stats) -> CheckResult
where
    S: Fmt,
{
    macro_rules! go {
        ($($N:literal)*) => {
            match c.n { $( $N => views::<S, $N>(c, st), )* _ => Err("bad case: N outside 1..=32".to_string()) }
        };
    }
    go!(1 2 3 4 5 6 7 8 9 10 11 12 13 14 15 16 17 18 19 20 21 22 23 24 25 26 27 28 29 30 31 32)
}

pub fn check_view(c: &ViewCase, st: &mut Stats) -> CheckResult {
    let k = c.kind;
    if k == <u8 as Fmt>::KIND {
        views_kind::<u8>(c, st)
    } else if k == <i16 as Fmt>::KIND {
        views_kind::<i16>(c, st)
    } else if k == <I24 as Fmt>::KIND {
        views_kind::<I24>(c, st)
    } else if k == <f32 as Fmt>::KIND {
        views_kind::<f32>(c, st)
    } else if k == <f64 as Fmt>::KIND {
        views_kind::<f64>(c, st)
    } else if k == <U48 as Fmt>::KIND {
        views_kind::<U48>(c, st)
    } else {
        Err("bad case: format not instantiated".into())
    }
}

// ------------------------------------------------------------------ in-place operations

#[derive(Clone, Copy, Debug, PartialEq, Eq, Serialize, Deserialize)]
pub enum FrameTy {
    I16x2,
    F32x2,
    U8x3,
    F32Mono,
    I24x1,
    F64x4,
    /// values that need more bits than the format's float companion has (a detour through floats would show)
    I32x2,
    I64x1,
}
pub const FRAME_TYS: [FrameTy; 8] = [FrameTy::I16x2, FrameTy::F32x2, FrameTy::U8x3, FrameTy::F32Mono, FrameTy::I24x1, FrameTy::F64x4, FrameTy::I32x2, FrameTy::I64x1];

#[derive(Clone, Copy, Debug, PartialEq, Eq, Serialize, Deserialize)]
pub enum SliceOp {
    Equilibrium,
    MapInPlace,
    ZipMapInPlace,
    Write,
    AddInPlace,
    AddInPlaceWithAmp,
    /// zip_map_in_place with a second slice of a different frame type (mono f32, e.g. an envelope): lengths are compared in frames
    ZipMapMixed,
}
pub const SLICE_OPS: [SliceOp; 7] = [SliceOp::Equilibrium, SliceOp::MapInPlace, SliceOp::ZipMapInPlace, SliceOp::Write, SliceOp::AddInPlace, SliceOp::AddInPlaceWithAmp, SliceOp::ZipMapMixed];

#[derive(Clone, Debug, Serialize, Deserialize)]
pub struct OpCase {
    pub ty: FrameTy,
    pub op: SliceOp,
    pub la: usize,
    pub lb: usize,
    pub salt: u32,
}

/// small in-range contents: amplitudes within +-20 of equilibrium so that sums / scaled sums stay in range
trait Small: Frame {
    fn small(i: usize, salt: u32) -> Self;
    fn small_signed(i: usize, salt: u32) -> Self::Signed;
    fn amp(salt: u32) -> <Self::Signed as Frame>::Float;
    fn amp_ones() -> <Self::Signed as Frame>::Float;
    fn gain() -> <Self::Sample as dasp_sample::Sample>::Float;
}
macro_rules! small_arr {
    ($S:ty, $N:literal, $mk:expr, $mks:expr, $mkf:expr) => {
        impl Small for [$S; $N] {
            fn small(i: usize, salt: u32) -> Self {
                core::array::from_fn(|c| $mk(((i * 7 + c * 3 + salt as usize) % 41) as i32 - 20))
            }
            fn small_signed(i: usize, salt: u32) -> Self::Signed {
                core::array::from_fn(|c| $mks(((i * 5 + c * 11 + salt as usize) % 37) as i32 - 18))
            }
            fn amp(salt: u32) -> <Self::Signed as Frame>::Float {
                core::array::from_fn(|c| $mkf([0.0, 1.0, 0.5, -1.0, 2.0, -0.5][(salt as usize + c) % 6]))
            }
            fn amp_ones() -> <Self::Signed as Frame>::Float {
                core::array::from_fn(|_| $mkf(1.0))
            }
            fn gain() -> <Self::Sample as dasp_sample::Sample>::Float {
                $mkf(0.5)
            }
        }
    };
}
small_arr!(i16, 2, |a: i32| a as i16 * 100, |a: i32| a as i16 * 90, |g: f32| g);
small_arr!(f32, 2, |a: i32| a as f32 * 0.03125, |a: i32| a as f32 * 0.0625, |g: f32| g);
small_arr!(u8, 3, |a: i32| (128 + a) as u8, |a: i32| a as i8, |g: f32| g);
small_arr!(I24, 1, |a: i32| I24::new(a * 1000).unwrap(), |a: i32| I24::new(a * 900).unwrap(), |g: f32| g);
small_arr!(f64, 4, |a: i32| a as f64 * 0.03125, |a: i32| a as f64 * 0.0625, |g: f32| g as f64);
small_arr!(i32, 2, |a: i32| a * 50_000_017, |a: i32| a * 6_000_011, |g: f32| g);
small_arr!(i64, 1, |a: i32| a as i64 * 200_000_000_000_000_037, |a: i32| a as i64 * 30_000_000_000_000_011, |g: f32| g as f64);
impl Small for f32 {
    fn small(i: usize, salt: u32) -> Self {
        (((i * 7 + salt as usize) % 41) as i32 - 20) as f32 * 0.03125
    }
    fn small_signed(i: usize, salt: u32) -> f32 {
        (((i * 5 + salt as usize) % 37) as i32 - 18) as f32 * 0.0625
    }
    fn amp(salt: u32) -> f32 {
        [0.0, 1.0, 0.5, -1.0, 2.0, -0.5][salt as usize % 6]
    }
    fn amp_ones() -> f32 {
        1.0
    }
    fn gain() -> f32 {
        0.5
    }
}

fn ops_typed<F>(c: &OpCase, st: &mut Stats) -> CheckResult
where
    F: Small + std::fmt::Debug,
    F::Signed: std::fmt::Debug,
{
    // one salt in four: runs of two equal neighbouring frames (an element-wise operation must not care)
    let a0: Vec<F> = (0..c.la).map(|i| F::small(if c.salt % 4 == 3 { i / 2 } else { i }, c.salt)).collect();
    let b_same: Vec<F> = (0..c.lb).map(|i| F::small(i + 13, c.salt)).collect();
    let b_signed: Vec<F::Signed> = (0..c.lb).map(|i| F::small_signed(i, c.salt)).collect();
    // salts 4 and 9 (mod 10): unity gain on every channel
    let amp = if c.salt % 5 == 4 { F::amp_ones() } else { F::amp(c.salt) };
    // a mono control slice: positive keeps the frame, otherwise the frame is silenced
    let b_mono: Vec<f32> = (0..c.lb).map(|i| if (i + c.salt as usize) % 3 == 0 { -1.0 } else { 0.5 }).collect();
    let two_slices = !matches!(c.op, SliceOp::Equilibrium | SliceOp::MapInPlace);
    let mismatch = two_slices && c.la != c.lb;
    st.nt(true);
    st.class_if(mismatch, "length mismatch (must panic, destination untouched)");
    st.class_if(c.la == 0, "empty destination");
    let mut a = a0.clone();
    // the closures record their arguments: the k-th call must be about element k
    let seen: std::cell::RefCell<Vec<(F, Option<F>)>> = std::cell::RefCell::new(Vec::new());
    let r = pan::catch(|| match c.op {
        SliceOp::Equilibrium => ds::equilibrium(&mut a[..]),
        SliceOp::MapInPlace => ds::map_in_place(&mut a[..], |f| {
            seen.borrow_mut().push((f, None));
            f.scale_amp(F::gain())
        }),
        SliceOp::ZipMapInPlace => ds::zip_map_in_place(&mut a[..], &b_same[..], |x, y| {
            seen.borrow_mut().push((x, Some(y)));
            if x == y {
                x
            } else {
                y
            }
        }),
        SliceOp::Write => ds::write(&mut a[..], &b_same[..]),
        SliceOp::AddInPlace => ds::add_in_place(&mut a[..], &b_signed[..]),
        SliceOp::AddInPlaceWithAmp => ds::add_in_place_with_amp_per_channel(&mut a[..], &b_signed[..], amp),
        SliceOp::ZipMapMixed => ds::zip_map_in_place(&mut a[..], &b_mono[..], |x, y: f32| if y > 0.0 { x } else { F::EQUILIBRIUM }),
    });
    let what = format!("{:?} on {:?} with lengths ({}, {})", c.op, c.ty, c.la, c.lb);
    if mismatch {
        ensure!(r.is_err(), "{}: did not panic on a length mismatch", what);
        ensure!(a == a0, "{}: destination was modified before the length check: {:?} -> {:?}", what, a0, a);
        return Ok(());
    }
    if let Err(p) = r {
        return Err(format!("{}: panicked: {}", what, p));
    }
    ensure!(a.len() == c.la, "{}: destination length changed", what);
    if matches!(c.op, SliceOp::MapInPlace | SliceOp::ZipMapInPlace) {
        let seen = seen.borrow();
        ensure!(seen.len() == c.la, "{}: the closure was called {} times for {} elements", what, seen.len(), c.la);
        for (k, (x, y)) in seen.iter().enumerate() {
            let ok = *x == a0[k] && y.map_or(true, |y| y == b_same[k]);
            ensure!(ok, "{}: call {} of the closure received {:?} / {:?}, expected element {} = {:?} (the closure is applied element by element in slice order)", what, k, x, y, k, a0[k]);
        }
    }
    for i in 0..c.la {
        let exp: F = match c.op {
            SliceOp::Equilibrium => F::EQUILIBRIUM,
            SliceOp::MapInPlace => a0[i].scale_amp(F::gain()),
            SliceOp::ZipMapInPlace | SliceOp::Write => b_same[i],
            SliceOp::AddInPlace => a0[i].add_amp(b_signed[i]),
            SliceOp::AddInPlaceWithAmp => a0[i].add_amp(b_signed[i].mul_amp(amp)),
            SliceOp::ZipMapMixed => if b_mono[i] > 0.0 { a0[i] } else { F::EQUILIBRIUM },
        };
        ensure!(a[i] == exp, "{}: element {} is {:?}, element-wise frame operation gives {:?}", what, i, a[i], exp);
    }
    Ok(())
}

pub fn check_op(c: &OpCase, st: &mut Stats) -> CheckResult {
    match c.ty {
        FrameTy::I16x2 => ops_typed::<[i16; 2]>(c, st),
        FrameTy::F32x2 => ops_typed::<[f32; 2]>(c, st),
        FrameTy::U8x3 => ops_typed::<[u8; 3]>(c, st),
        FrameTy::F32Mono => ops_typed::<f32>(c, st),
        FrameTy::I24x1 => ops_typed::<[I24; 1]>(c, st),
        FrameTy::F64x4 => ops_typed::<[f64; 4]>(c, st),
        FrameTy::I32x2 => ops_typed::<[i32; 2]>(c, st),
        FrameTy::I64x1 => ops_typed::<[i64; 1]>(c, st),
    }
}

pub fn run(ctx: &mut Ctx) {
    ctx.set_rule(
        "views: (format in {u8,i16,I24,f32,f64,U48}, N in 1..=32, length L, shared|mutable|boxed, offset of the viewed range inside a larger buffer): every L in 0..=2N+1 exhaustively plus proptest lengths up to 4096; \
         in-place ops: (frame type out of [i16;2], [f32;2], [u8;3], f32, [I24;1], [f64;4], [i32;2] and [i64;1] with values wider than their float companion's mantissa; operation, destination length, source length, contents salt): every length pair up to 6 x 6 exhaustively plus random lengths up to 300; \
         non-trivial: N >= 3, N does not divide L, L = 0, boxed, or a non-f32 format; every in-place case",
    );
    ctx.assume("boxed conversions are measured with the harness's counting allocator: zero allocator events during a successful conversion, and every byte allocated for the box is released again after success-and-drop or after a failed conversion");
    ctx.assume("in-place operations are compared with the element-wise dasp Frame operation (whose per-channel correctness is C03's subject); the closures of map_in_place / zip_map_in_place record their arguments: call k must be about element k (a sequential element-by-element map)");
    ctx.require_class("failed boxed conversion");
    ctx.require_class("empty slice at a non-zero offset of a buffer");
    ctx.require_class("length mismatch (must panic, destination untouched)");

    let mut cases = Vec::new();
    for &k in &VIEW_KINDS {
        for n in 1..=32usize {
            for len in 0..=2 * n + 1 {
                for mode in [Mode::Shared, Mode::Mutable, Mode::Boxed] {
                    cases.push(ViewCase { kind: k, n, len, mode, offset: if len == 0 { n } else { (n + len) % 4 } });
                }
            }
        }
    }
    let n = cases.len() as u64;
    ctx.par_enumerate("views/all-small-lengths", true, n, move |i| cases[i as usize].clone(), check_view);
    let strat = (0usize..6, 1usize..=32, prop_oneof![6 => 0usize..=4096, 1 => Just(0usize)], 0usize..3, any::<bool>(), 0usize..70).prop_map(|(ki, n, len, m, round, offset)| {
        // half of the cases: a multiple of N (so the success path gets long inputs too)
        let len = if round { len - len % n } else { len };
        ViewCase { kind: VIEW_KINDS[ki], n, len, mode: [Mode::Shared, Mode::Mutable, Mode::Boxed][m], offset }
    });
    ctx.prop("views/random-lengths", ctx.pick(40_000, 300_000), strat, check_view);

    let mut cases = Vec::new();
    for &ty in &FRAME_TYS {
        for &op in &SLICE_OPS {
            for la in 0..=6 {
                for lb in 0..=(if op == SliceOp::ZipMapMixed { 24 } else { 6 }) {
                    for salt in 0..5 {
                        cases.push(OpCase { ty, op, la, lb, salt });
                    }
                }
            }
        }
    }
    ctx.enumerate("ops/all-small-length-pairs", true, cases.into_iter(), check_op);
    // sums that land exactly on the ends of the range (I24 and i16 frames): MAX - k plus k, MIN + k minus k
    #[derive(Clone, Debug, Serialize, Deserialize)]
    struct EndCase {
        k: i32,
        with_amp: bool,
    }
    let cases: Vec<EndCase> = (1..=40).flat_map(|k| [EndCase { k: k * 173, with_amp: false }, EndCase { k: k * 173, with_amp: true }]).collect();
    ctx.enumerate("ops/sums-landing-on-the-range-ends", true, cases.into_iter(), |c: &EndCase, st: &mut Stats| {
        st.nt(true);
        let k = c.k;
        ensure!(k > 0 && k < 8000, "bad case: k out of range");
        let r = pan::catch(|| {
            let mk = |v: i32| [I24::new(v).unwrap()];
            let (max, min) = (8_388_607, -8_388_608);
            let mut hi = vec![mk(max - k); 3];
            let mut lo = vec![mk(min + k); 3];
            let mut hi16 = vec![[i16::MAX - k as i16, i16::MIN + k as i16]; 2];
            if c.with_amp {
                // twice the distance at gain 0.5 (2k x 0.5 is exact in f32)
                ds::add_in_place_with_amp_per_channel(&mut hi[..], &vec![mk(2 * k); 3][..], [0.5f32]);
                ds::add_in_place_with_amp_per_channel(&mut lo[..], &vec![mk(-2 * k); 3][..], [0.5f32]);
                ds::add_in_place_with_amp_per_channel(&mut hi16[..], &vec![[2 * k as i16, -2 * k as i16]; 2][..], [0.5f32, 0.5]);
            } else {
                ds::add_in_place(&mut hi[..], &vec![mk(k); 3][..]);
                ds::add_in_place(&mut lo[..], &vec![mk(-k); 3][..]);
                ds::add_in_place(&mut hi16[..], &vec![[k as i16, -(k as i16)]; 2][..]);
            }
            (hi.iter().map(|f| f[0].inner()).collect::<Vec<i32>>(), lo.iter().map(|f| f[0].inner()).collect::<Vec<i32>>(), hi16)
        });
        let what = if c.with_amp { "add_in_place_with_amp_per_channel (gain 0.5, addend 2k)" } else { "add_in_place" };
        let (hi, lo, hi16) = r.map_err(|p| format!("{} with k = {}: a sum that lands exactly on MAX / MIN panicked: {}", what, k, p))?;
        ensure!(hi.iter().all(|v| *v == 8_388_607) && lo.iter().all(|v| *v == -8_388_608), "{} with k = {}: [I24; 1] MAX - k + k = {:?}, MIN + k - k = {:?}", what, k, hi, lo);
        ensure!(hi16.iter().all(|f| *f == [i16::MAX, i16::MIN]), "{} with k = {}: [i16; 2] sums landing on MAX / MIN give {:?}", what, k, hi16);
        Ok(())
    });
    // write is a copy: whatever bit patterns the source frames hold (NaN with any payload, infinities, -0.0, subnormals) arrive
    // unchanged; equilibrium overwrites them all
    #[derive(Clone, Debug, Serialize, Deserialize)]
    struct BitsCase {
        len: usize,
        rot: usize,
    }
    let cases: Vec<BitsCase> = (0..=9usize).flat_map(|len| (0..32usize).map(move |rot| BitsCase { len, rot })).collect();
    ctx.enumerate("ops/write-copies-every-bit-pattern", true, cases.into_iter(), |c: &BitsCase, st: &mut Stats| {
        st.nt(c.len > 0);
        const P32: [u32; 8] = [0x7fc0_0000, 0xffc0_0001, 0x7f80_0000, 0xff80_0000, 0x8000_0000, 0x0000_0001, 0x7fa0_1234, 0x0000_0000];
        const P64: [u64; 8] = [0x7ff8_0000_0000_0000, 0xfff8_0000_0000_0001, 0x7ff0_0000_0000_0000, 0xfff0_0000_0000_0000, 0x8000_0000_0000_0000, 1, 0x7ff4_0000_0000_1234, 0];
        let b32: Vec<[f32; 2]> = (0..c.len).map(|i| [f32::from_bits(P32[(i + c.rot) % 8]), f32::from_bits(P32[(i + c.rot + 1) % 8])]).collect();
        let m32: Vec<f32> = (0..c.len).map(|i| f32::from_bits(P32[(i + c.rot) % 8])).collect();
        let b64: Vec<[f64; 4]> = (0..c.len).map(|i| core::array::from_fn(|ch| f64::from_bits(P64[(i + ch + c.rot) % 8]))).collect();
        // the destination holds, in turn, ordinary values, +0.0 and -0.0 (a copy that is skipped when source and destination
        // compare equal would leave the wrong zero) and the source's own pattern shifted by one
        let d32 = |i: usize| -> f32 { [0.25f32, 0.0, -0.0, f32::from_bits(P32[(i + c.rot + 1) % 8])][(i + c.rot / 8) % 4] };
        let d64 = |i: usize| -> f64 { [0.125f64, -0.0, 0.0, f64::from_bits(P64[(i + c.rot + 1) % 8])][(i + c.rot / 8) % 4] };
        let (mut a32, mut am, mut a64): (Vec<[f32; 2]>, Vec<f32>, Vec<[f64; 4]>) = ((0..c.len).map(|i| [d32(i), d32(i + 1)]).collect(), (0..c.len).map(|i| d32(i)).collect(), (0..c.len).map(|i| core::array::from_fn(|ch| d64(i + ch))).collect());
        ds::write(&mut a32[..], &b32[..]);
        ds::write(&mut am[..], &m32[..]);
        ds::write(&mut a64[..], &b64[..]);
        for i in 0..c.len {
            for ch in 0..2 {
                ensure!(a32[i][ch].to_bits() == b32[i][ch].to_bits(), "write of [f32; 2] frames: element {} channel {} arrives as bits {:#x}, the source holds {:#x}", i, ch, a32[i][ch].to_bits(), b32[i][ch].to_bits());
            }
            ensure!(am[i].to_bits() == m32[i].to_bits(), "write of f32 frames: element {} arrives as bits {:#x}, the source holds {:#x}", i, am[i].to_bits(), m32[i].to_bits());
            for ch in 0..4 {
                ensure!(a64[i][ch].to_bits() == b64[i][ch].to_bits(), "write of [f64; 4] frames: element {} channel {} arrives as bits {:#x}, the source holds {:#x}", i, ch, a64[i][ch].to_bits(), b64[i][ch].to_bits());
            }
        }
        ds::equilibrium(&mut a32[..]);
        ds::equilibrium(&mut a64[..]);
        ensure!(a32.iter().all(|f| f.iter().all(|x| x.to_bits() == 0)) && a64.iter().all(|f| f.iter().all(|x| x.to_bits() == 0)), "equilibrium over non-finite content leaves {:?} / {:?}", a32, a64);
        Ok(())
    });
    let strat = (0usize..8, 0usize..7, 0usize..300, 0usize..300, any::<u32>(), any::<bool>()).prop_map(|(t, o, la, lb, salt, same)| OpCase {
        ty: FRAME_TYS[t],
        op: SLICE_OPS[o],
        la,
        lb: if same { la } else { lb },
        salt: salt % 1000,
    });
    ctx.prop("ops/random-lengths", ctx.pick(40_000, 300_000), strat, check_op);
}
