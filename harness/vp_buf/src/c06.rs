//! C06 — generators: the step relation from every state, proptest histories, constructors.

use crate::rb::*;
use proptest::prelude::*;
use vp_core::Ctx;

fn single_bounded_ops(cap: usize, len: usize) -> Vec<BOp> {
    let mut v = vec![BOp::Push, BOp::Pop, BOp::Iter, BOp::IterMutSet, BOp::Slices, BOp::SlicesMutSet, BOp::Observe];
    for i in 0..cap + 2 {
        v.push(BOp::Get(i));
        v.push(BOp::GetMutSet(i));
        v.push(BOp::Index(i));
        v.push(BOp::IndexMutSet(i));
    }
    for i in 0..cap + 6 {
        v.push(BOp::Extend(i));
    }
    for k in 0..=len + 1 {
        v.push(BOp::Drain(k));
        v.push(BOp::DrainNth(k));
    }
    v
}

fn single_fixed_ops(cap: usize) -> Vec<FOp> {
    let mut v = vec![FOp::Push, FOp::Slices, FOp::SlicesMutSet, FOp::Iter, FOp::IterMutSet, FOp::Observe];
    for i in 0..3 * cap {
        v.push(FOp::Get(i));
        v.push(FOp::GetMutSet(i));
        v.push(FOp::Index(i));
        v.push(FOp::IndexMutSet(i));
        v.push(FOp::SetFirst(i));
        v.push(FOp::IterLoop(i));
    }
    for k in 0..cap + 6 {
        v.push(FOp::Extend(k));
    }
    v
}

pub fn bop(cap: usize) -> impl Strategy<Value = BOp> {
    prop_oneof![
        6 => Just(BOp::Push),
        4 => Just(BOp::Pop),
        2 => (0..cap + 2).prop_map(BOp::Get),
        1 => (0..cap + 2).prop_map(BOp::GetMutSet),
        2 => (0..cap + 2).prop_map(BOp::Index),
        1 => (0..cap + 2).prop_map(BOp::IndexMutSet),
        1 => Just(BOp::Iter),
        1 => Just(BOp::IterMutSet),
        1 => Just(BOp::Slices),
        1 => Just(BOp::SlicesMutSet),
        1 => (0..cap + 2).prop_map(BOp::Drain),
        1 => (0..cap + 2).prop_map(BOp::DrainNth),
        2 => (0..2 * cap + 6).prop_map(BOp::Extend),
    ]
}

pub fn fop(cap: usize) -> impl Strategy<Value = FOp> {
    prop_oneof![
        8 => Just(FOp::Push),
        2 => (0..3 * cap).prop_map(FOp::Get),
        1 => (0..3 * cap).prop_map(FOp::GetMutSet),
        2 => (0..3 * cap).prop_map(FOp::Index),
        1 => (0..3 * cap).prop_map(FOp::IndexMutSet),
        2 => (0..3 * cap).prop_map(FOp::SetFirst),
        1 => Just(FOp::Slices),
        1 => Just(FOp::SlicesMutSet),
        1 => Just(FOp::Iter),
        1 => (0..3 * cap + 1).prop_map(FOp::IterLoop),
        1 => Just(FOp::IterMutSet),
        2 => (0..2 * cap + 6).prop_map(FOp::Extend),
    ]
}

fn storage_for(cap: usize) -> impl Strategy<Value = Storage> {
    let mut v = vec![Storage::GuardedSlice, Storage::Vec, Storage::BoxedSlice];
    if ARRAY_CAPS.contains(&cap) {
        v.push(Storage::Array);
        v.push(Storage::Array);
    }
    proptest::sample::select(v)
}

fn cap_strategy(max: usize) -> impl Strategy<Value = usize> {
    prop_oneof![
        3 => 1usize..=4,
        3 => proptest::sample::select(ARRAY_CAPS.to_vec()),
        2 => 1usize..=max,
    ]
}

pub fn bcase(max_cap: usize, max_ops: usize) -> impl Strategy<Value = BCase> {
    cap_strategy(max_cap).prop_flat_map(move |cap| {
        (0..cap, 0..=cap, storage_for(cap), any::<bool>(), proptest::collection::vec(bop(cap), 0..max_ops)).prop_map(
            move |(start, len, storage, f, ops)| BCase { cap, start, len, storage, elem: if f { ElemTy::F32x2 } else { ElemTy::U32 }, ops },
        )
    })
}

pub fn fcase(max_cap: usize, max_ops: usize) -> impl Strategy<Value = FCase> {
    cap_strategy(max_cap).prop_flat_map(move |cap| {
        (0..cap, storage_for(cap), any::<bool>(), proptest::collection::vec(fop(cap), 0..max_ops)).prop_map(
            move |(first, storage, f, ops)| FCase { cap, first, storage, elem: if f { ElemTy::F32x2 } else { ElemTy::U32 }, ops },
        )
    })
}

pub fn run(ctx: &mut Ctx) {
    ctx.set_rule(
        "Bounded: (capacity, start, len, storage kind, element type, operation sequence); Fixed: (length, first, storage, element type, operation sequence). \
         extend() is driven with iterators whose size_hint is exact, a loose upper bound, or unknown. Step relation: every valid (start, len) / first for capacities 1..=12 (thorough 1..=24) x every single operation with every argument up to capacity+1 \
         (3N for Fixed's wrapping indices), over guarded &mut[T] storage and arrays; histories: proptest sequences of up to 300 (thorough 2000) operations over \
         capacities up to 64, all four storage kinds, u32 and [f32;2] elements, and for Fixed (which does not require Copy) an element type with a destructor whose every drop is recorded in a ledger; after EVERY operation the whole observable state is compared with the model. \
         Non-trivial: an operation executed from a state whose start/first is not 0. Enumerations are distinct by construction, histories de-duplicated by hash.",
    );
    ctx.assume("model = VecDeque of the live elements (Bounded) / rotating array (Fixed); every slot carries a distinct sentinel and the backing slice sits between canary guard zones, so reads of dead slots or neighbouring memory show up as values the model cannot explain");
    ctx.assume("the step relation is checked from every state of the enumerated capacities, which covers histories of any length for those capacities");
    for c in ["indexed read after wrap", "pop-then-push in a wrapped buffer", "drain partially", "set_first then push", "push returns value pushed N pushes earlier", "index wraps modulo N", "owned elements: more pushes than slots"] {
        ctx.require_class(c);
    }

    let max_cap = ctx.pick(12usize, 24);
    // (a) Bounded: step relation from every state
    let mut cases = Vec::new();
    for cap in 1..=max_cap {
        for start in 0..cap {
            for len in 0..=cap {
                for op in single_bounded_ops(cap, len) {
                    cases.push(BCase { cap, start, len, storage: Storage::GuardedSlice, elem: ElemTy::U32, ops: vec![op.clone()] });
                    if ARRAY_CAPS.contains(&cap) {
                        cases.push(BCase { cap, start, len, storage: Storage::Array, elem: ElemTy::F32x2, ops: vec![op] });
                    }
                }
            }
        }
    }
    let n = cases.len() as u64;
    ctx.par_enumerate("bounded/step-from-every-state", true, n, move |i| cases[i as usize].clone(), check_bounded);
    // two-step sequences from every state for tiny capacities (pop-then-push across the wrap etc.)
    let mut cases = Vec::new();
    for cap in 1..=ctx.pick(4usize, 6) {
        for start in 0..cap {
            for len in 0..=cap {
                let ops = single_bounded_ops(cap, len);
                for a in &ops {
                    for b in &ops {
                        cases.push(BCase { cap, start, len, storage: Storage::GuardedSlice, elem: ElemTy::U32, ops: vec![a.clone(), b.clone()] });
                    }
                }
            }
        }
    }
    let n = cases.len() as u64;
    ctx.par_enumerate("bounded/two-steps-from-every-state", true, n, move |i| cases[i as usize].clone(), check_bounded);

    // (a') Fixed: step relation from every first
    let mut cases = Vec::new();
    for cap in 1..=max_cap {
        for first in 0..cap {
            for op in single_fixed_ops(cap) {
                cases.push(FCase { cap, first, storage: Storage::GuardedSlice, elem: ElemTy::U32, ops: vec![op.clone()] });
                if ARRAY_CAPS.contains(&cap) {
                    cases.push(FCase { cap, first, storage: Storage::Array, elem: ElemTy::F32x2, ops: vec![op] });
                }
            }
        }
    }
    let n = cases.len() as u64;
    ctx.par_enumerate("fixed/step-from-every-state", true, n, move |i| cases[i as usize].clone(), check_fixed);
    let mut cases = Vec::new();
    for cap in 1..=ctx.pick(4usize, 6) {
        for first in 0..cap {
            let ops = single_fixed_ops(cap);
            for a in &ops {
                for b in &ops {
                    cases.push(FCase { cap, first, storage: Storage::GuardedSlice, elem: ElemTy::U32, ops: vec![a.clone(), b.clone()] });
                }
            }
        }
    }
    let n = cases.len() as u64;
    ctx.par_enumerate("fixed/two-steps-from-every-state", true, n, move |i| cases[i as usize].clone(), check_fixed);

    // (b) histories
    let max_ops = ctx.pick(300usize, 2000);
    ctx.prop("bounded/histories", ctx.pick(10_000, 60_000), bcase(64, max_ops), check_bounded);
    ctx.prop("fixed/histories", ctx.pick(10_000, 60_000), fcase(64, max_ops), check_fixed);
    // Fixed does not require Copy elements: the same histories over an element type with a destructor
    let owned = fcase(24, 120).prop_map(|mut c| {
        c.elem = ElemTy::Owned;
        c.storage = Storage::Vec;
        c
    });
    ctx.prop("fixed/histories-owning-elements", ctx.pick(10_000, 60_000), owned, check_fixed);

    // (c) constructors
    let mut cases = Vec::new();
    for cap in 0..=6 {
        for start in 0..=8 {
            for len in 0..=8 {
                cases.push(CtorCase { cap, start, len });
            }
        }
    }
    ctx.enumerate("constructors", true, cases.into_iter(), check_ctor);
}
