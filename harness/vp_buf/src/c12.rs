//! C12 — fork: both branches observe the identical stream under every pull interleaving.

use crate::probe::{Coded, Counters, Probe};
use dasp_ring_buffer::{Bounded, SliceMut};
use dasp_signal::{BranchRcA, BranchRcB, BranchRefA, BranchRefB, Signal};
use proptest::prelude::*;
use serde::{Deserialize, Serialize};
use vp_core::{ensure, pan, CheckResult, Ctx, Stats};

#[derive(Clone, Copy, Debug, PartialEq, Eq, Serialize, Deserialize)]
pub enum Variant {
    ByRef,
    ByRc,
    /// by_ref used for the first `split_at` pulls, dropped, then by_ref again
    ResplitRefRef,
    /// by_ref first, then by_rc
    ResplitRefRc,
    /// by_rc; after `split_at` pulls branch A is dropped and the remaining choices all go to B
    RcDropA,
    /// by_rc; after `split_at` pulls branch B is dropped and the remaining choices all go to A
    RcDropB,
    /// by_ref for the first `split_at` pulls, then the Fork is cloned and the clone is split (by_ref) for the rest
    CloneThenRef,
}

#[derive(Clone, Debug, Serialize, Deserialize)]
pub struct Case {
    pub cap: usize,
    pub array_storage: bool,
    pub int_frames: bool,
    pub variant: Variant,
    /// true = pull branch A.  A choice that would put a branch more than `cap` frames ahead is
    /// replaced by the other branch (the property's precondition, enforced by construction).
    pub choices: Vec<bool>,
    pub split_at: usize,
    /// `None` = endless source; `Some(L)` = the source ends after L frames (equilibrium afterwards, still pulled once per frame)
    #[serde(default)]
    pub src_len: Option<u64>,
    /// the (empty) ring buffer handed to fork() starts at this backing index (taken modulo the capacity)
    #[serde(default)]
    pub rb_start: usize,
    /// finite sources only: this many frames are still index-coded after the source reports exhaustion
    #[serde(default)]
    pub tail: u64,
}

trait Br<F> {
    fn nx(&mut self) -> F;
    fn pend(&self) -> usize;
}
macro_rules! br {
    ($($T:ident),*) => {$(
        impl<S, D> Br<S::Frame> for $T<S, D>
        where S: Signal, D: SliceMut<Element = S::Frame> {
            fn nx(&mut self) -> S::Frame { self.next() }
            fn pend(&self) -> usize { self.pending_frames() }
        }
    )*};
}
br!(BranchRcA, BranchRcB);
macro_rules! br_ref {
    ($($T:ident),*) => {$(
        impl<'a, S, D> Br<S::Frame> for $T<'a, S, D>
        where S: Signal, D: SliceMut<Element = S::Frame> {
            fn nx(&mut self) -> S::Frame { self.next() }
            fn pend(&self) -> usize { self.pending_frames() }
        }
    )*};
}
br_ref!(BranchRefA, BranchRefB);

struct State {
    pa: u64,
    pb: u64,
    cap: u64,
    sign_flips: u32,
    last_sign: i8,
    hit_cap: bool,
    forced: u32,
    src_len: Option<u64>,
    tail: u64,
}

/// frame k of the probe: its index code while the source lasts, equilibrium afterwards
fn is_frame<F: Coded>(got: F, k: u64, src_len: Option<u64>, tail: u64) -> bool {
    match Probe::<F>::expected(src_len, tail, k) {
        None => got.is_equilibrium(),
        Some(k) => got.decode() == Some(k),
    }
}

fn run_steps<F: Coded>(a: &mut dyn Br<F>, b: &mut dyn Br<F>, choices: &[bool], s: &mut State, counters: &Counters, base: usize) -> CheckResult {
    run_steps_off::<F>(a, b, choices, s, counters, base, 0)
}

/// `extra_pulls`: pulls of the shared probe counter that were made by a clone of the fork (its own copy of the source)
fn run_steps_off<F: Coded>(a: &mut dyn Br<F>, b: &mut dyn Br<F>, choices: &[bool], s: &mut State, counters: &Counters, base: usize, extra_pulls: u64) -> CheckResult {
    for (k, &want_a) in choices.iter().enumerate() {
        let lead_a = s.pa as i64 - s.pb as i64;
        let mut pull_a = want_a;
        if pull_a && lead_a >= s.cap as i64 {
            pull_a = false;
            s.forced += 1;
        } else if !pull_a && -lead_a >= s.cap as i64 {
            pull_a = true;
            s.forced += 1;
        }
        let (got, idx) = if pull_a {
            let g = a.nx();
            s.pa += 1;
            (g, s.pa - 1)
        } else {
            let g = b.nx();
            s.pb += 1;
            (g, s.pb - 1)
        };
        let step = base + k;
        let who = if pull_a { "A" } else { "B" };
        ensure!(
            is_frame(got, idx, s.src_len, s.tail),
            "step {}: branch {} pull #{} returned {:?} (frame {:?}), expected source frame {} (A has pulled {}, B {}; the source has {:?} frames)",
            step, who, idx, got, got.decode(), idx, s.pa, s.pb, s.src_len
        );
        let maxp = s.pa.max(s.pb);
        ensure!(counters.pulls() == maxp + extra_pulls, "step {}: source pulled {} times, but max(pulls_A, pulls_B) = {}", step, counters.pulls() - extra_pulls.min(counters.pulls()), maxp);
        let (ea, eb) = (s.pb.saturating_sub(s.pa), s.pa.saturating_sub(s.pb));
        ensure!(a.pend() as u64 == ea, "step {}: A.pending_frames() = {}, but A lags by {}", step, a.pend(), ea);
        ensure!(b.pend() as u64 == eb, "step {}: B.pending_frames() = {}, but B lags by {}", step, b.pend(), eb);
        let lead = s.pa as i64 - s.pb as i64;
        if lead.unsigned_abs() == s.cap {
            s.hit_cap = true;
        }
        let sign = lead.signum() as i8;
        if sign != 0 {
            if s.last_sign != 0 && sign != s.last_sign {
                s.sign_flips += 1;
            }
            s.last_sign = sign;
        }
    }
    Ok(())
}

fn run_fork<F: Coded, D: SliceMut<Element = F> + Clone>(rb: Bounded<D>, c: &Case, st: &mut Stats) -> CheckResult {
    let counters = Counters::new();
    let probe: Probe<F> = Probe::with_tail(c.src_len, c.tail, counters.clone());
    let mut fork = probe.fork(rb);
    let mut s = State { pa: 0, pb: 0, cap: c.cap as u64, sign_flips: 0, last_sign: 0, hit_cap: false, forced: 0, src_len: c.src_len, tail: c.tail };
    let split = c.split_at.min(c.choices.len());
    match c.variant {
        Variant::ByRef => {
            let (mut a, mut b) = fork.by_ref();
            run_steps::<F>(&mut a, &mut b, &c.choices, &mut s, &counters, 0)?;
        }
        Variant::ByRc => {
            let (mut a, mut b) = fork.by_rc();
            run_steps::<F>(&mut a, &mut b, &c.choices, &mut s, &counters, 0)?;
        }
        Variant::ResplitRefRef => {
            {
                let (mut a, mut b) = fork.by_ref();
                run_steps::<F>(&mut a, &mut b, &c.choices[..split], &mut s, &counters, 0)?;
            }
            st.class_if(s.pa != s.pb, "re-split with frames still pending");
            let (mut a, mut b) = fork.by_ref();
            run_steps::<F>(&mut a, &mut b, &c.choices[split..], &mut s, &counters, split)?;
        }
        Variant::ResplitRefRc => {
            {
                let (mut a, mut b) = fork.by_ref();
                run_steps::<F>(&mut a, &mut b, &c.choices[..split], &mut s, &counters, 0)?;
            }
            st.class_if(s.pa != s.pb, "re-split with frames still pending");
            let (mut a, mut b) = fork.by_rc();
            run_steps::<F>(&mut a, &mut b, &c.choices[split..], &mut s, &counters, split)?;
        }
        Variant::CloneThenRef => {
            {
                let (mut a, mut b) = fork.by_ref();
                run_steps::<F>(&mut a, &mut b, &c.choices[..split], &mut s, &counters, 0)?;
            }
            st.class_if(s.pa != s.pb, "fork cloned with frames still pending");
            // the clone carries the source position, the queued frames and whom they are for
            let mut twin = fork.clone();
            let (s0, p0) = (State { ..s }, counters.pulls());
            {
                let (mut a, mut b) = twin.by_ref();
                run_steps::<F>(&mut a, &mut b, &c.choices[split..], &mut s, &counters, split)?;
            }
            // the original is a value of its own: used after its clone, it continues from where IT stood (its own source
            // position, its own queued frames), whatever the clone has consumed in the meantime
            let extra = counters.pulls() - p0;
            let mut s1 = s0;
            let (mut a, mut b) = fork.by_ref();
            run_steps_off::<F>(&mut a, &mut b, &c.choices[split..], &mut s1, &counters, split, extra).map_err(|e| format!("the original fork, used after its clone had run: {}", e))?;
            st.class("fork cloned mid-use");
        }
        Variant::RcDropA | Variant::RcDropB => {
            let (mut a, mut b) = fork.by_rc();
            run_steps::<F>(&mut a, &mut b, &c.choices[..split], &mut s, &counters, 0)?;
            let rest = c.choices.len() - split;
            // the surviving branch must still see every source frame in order: first what is queued for it, then fresh frames
            if c.variant == Variant::RcDropA {
                drop(a);
                st.class_if(s.pb < s.pa, "by_rc branch dropped while the other still has pending frames");
                for j in 0..rest {
                    let g = b.next();
                    ensure!(is_frame(g, s.pb, c.src_len, c.tail), "after branch A was dropped, B's pull #{} returned {:?} (frame {:?}), expected source frame {}", s.pb, g, g.decode(), s.pb);
                    s.pb += 1;
                    ensure!(counters.pulls() == s.pa.max(s.pb), "after branch A was dropped (step {}): source pulled {} times, expected {}", j, counters.pulls(), s.pa.max(s.pb));
                    ensure!(b.pending_frames() as u64 == s.pa.saturating_sub(s.pb), "after branch A was dropped: B.pending_frames() = {}, lag {}", b.pending_frames(), s.pa.saturating_sub(s.pb));
                }
            } else {
                drop(b);
                st.class_if(s.pa < s.pb, "by_rc branch dropped while the other still has pending frames");
                for j in 0..rest {
                    let g = a.next();
                    ensure!(is_frame(g, s.pa, c.src_len, c.tail), "after branch B was dropped, A's pull #{} returned {:?} (frame {:?}), expected source frame {}", s.pa, g, g.decode(), s.pa);
                    s.pa += 1;
                    ensure!(counters.pulls() == s.pa.max(s.pb), "after branch B was dropped (step {}): source pulled {} times, expected {}", j, counters.pulls(), s.pa.max(s.pb));
                    ensure!(a.pending_frames() as u64 == s.pb.saturating_sub(s.pa), "after branch B was dropped: A.pending_frames() = {}, lag {}", a.pending_frames(), s.pb.saturating_sub(s.pa));
                }
            }
        }
    }
    if let Variant::RcDropA | Variant::RcDropB = c.variant {
        // handled below (needs ownership of the branches)
    }
    let resplit = matches!(c.variant, Variant::ResplitRefRef | Variant::ResplitRefRc);
    st.nt(s.sign_flips > 0 || s.hit_cap || c.cap == 1 || resplit);
    st.class_if(s.sign_flips > 0, "lead changes sign");
    st.class_if(s.hit_cap, "lead reaches the capacity exactly");
    st.class_if(c.cap == 1, "capacity 1");
    st.class_if(resplit, "re-split");
    st.class_if(s.forced > 0, "choice redirected to keep the lead within capacity");
    st.class_if(c.src_len.map_or(false, |l| s.pa.max(s.pb) > l && s.pa.min(s.pb) < s.pa.max(s.pb)), "finite source ends while one branch is ahead");
    st.class_if(c.rb_start % c.cap != 0, "empty ring buffer that does not start at slot 0");
    st.class_if(c.src_len.is_some() && c.tail > 0 && s.pa.max(s.pb) > c.src_len.unwrap(), "source reports exhaustion while still yielding frames");
    Ok(())
}

fn with_storage<F: Coded>(c: &Case, st: &mut Stats) -> CheckResult {
    ensure!(c.cap >= 1, "bad case: capacity 0");
    if c.array_storage {
        macro_rules! arr {
            ($($N:literal)*) => {
                match c.cap {
                    $( $N => return run_fork::<F, [F; $N]>(Bounded::from_raw_parts(c.rb_start % $N, 0, [F::EQUILIBRIUM; $N]), c, st), )*
                    _ => {}
                }
            };
        }
        arr!(1 2 3 4 5 8 16);
    }
    run_fork::<F, Vec<F>>(Bounded::from_raw_parts(c.rb_start % c.cap, 0, vec![F::EQUILIBRIUM; c.cap]), c, st)
}

pub fn check(c: &Case, st: &mut Stats) -> CheckResult {
    if c.int_frames {
        with_storage::<[i16; 2]>(c, st)
    } else {
        with_storage::<f64>(c, st)
    }
}

#[derive(Clone, Debug, Serialize, Deserialize)]
pub struct NonEmptyCase {
    pub cap: usize,
    pub prefill: usize,
}

/// `fork` with a non-empty ring buffer must panic; with an empty one it must not
pub fn check_nonempty(c: &NonEmptyCase, st: &mut Stats) -> CheckResult {
    let mut rb = Bounded::from(vec![0.0f64; c.cap]);
    for i in 0..c.prefill.min(c.cap) {
        rb.push(i as f64);
    }
    let non_empty = c.prefill.min(c.cap) > 0;
    st.nt(non_empty);
    let r = pan::catch(|| {
        let probe: Probe<f64> = Probe::new(None, Counters::new());
        let _f = probe.fork(rb);
    });
    ensure!(r.is_err() == non_empty, "fork over a ring buffer holding {} frames: {}", c.prefill.min(c.cap), if r.is_err() { "panicked" } else { "did not panic" });
    Ok(())
}

/// all schedules of length exactly `len` whose lead never exceeds `cap` (constructive DFS)
fn valid_schedules(cap: usize, len: usize) -> Vec<Vec<bool>> {
    fn go(cap: i64, len: usize, cur: &mut Vec<bool>, lead: i64, out: &mut Vec<Vec<bool>>) {
        if cur.len() == len {
            out.push(cur.clone());
            return;
        }
        if lead < cap {
            cur.push(true);
            go(cap, len, cur, lead + 1, out);
            cur.pop();
        }
        if -lead < cap {
            cur.push(false);
            go(cap, len, cur, lead - 1, out);
            cur.pop();
        }
    }
    let mut out = Vec::new();
    go(cap as i64, len, &mut Vec::new(), 0, &mut out);
    out
}

pub fn case_strategy(max_cap: usize, max_len: usize) -> impl Strategy<Value = Case> {
    let cap = prop_oneof![3 => 1usize..=3, 2 => proptest::sample::select(vec![1usize, 2, 3, 4, 5, 8, 16]), 2 => 1usize..=max_cap];
    (cap, any::<bool>(), any::<bool>(), 0usize..7, 0usize..max_len, prop_oneof![2 => Just(None), 1 => (0u64..40).prop_map(Some)], 0usize..70).prop_flat_map(move |(cap, arr, int, v, len, src_len, rb_start)| {
        // runs: biased toward long runs of one branch (reaching the capacity) and sign flips
        let runs = proptest::collection::vec((any::<bool>(), 1usize..=(2 * cap + 2)), 0..(len / 2 + 1));
        (runs, 0usize..(len + 1)).prop_map(move |(runs, split_at)| {
            let mut choices = Vec::new();
            for (b, n) in runs {
                for _ in 0..n {
                    choices.push(b);
                }
            }
            choices.truncate(len);
            Case {
                cap,
                array_storage: arr,
                int_frames: int,
                variant: [Variant::ByRef, Variant::ByRc, Variant::ResplitRefRef, Variant::ResplitRefRc, Variant::RcDropA, Variant::RcDropB, Variant::CloneThenRef][v],
                choices,
                split_at,
                src_len,
                rb_start,
                tail: (rb_start % 3) as u64 * 2,
            }
        })
    })
}

pub fn run(ctx: &mut Ctx) {
    ctx.set_rule(
        "cases are (capacity, storage, start slot of the empty ring buffer handed to fork, frame type, endless or finite source, by_ref | by_rc | re-split | clone-then-split variant, schedule over {A,B}); every schedule of every length up to 16 (thorough 20) \
         whose lead never exceeds the capacity, for capacities 1..=4 (thorough 1..=5), generated constructively (nothing discarded), for by_ref and by_rc; proptest schedules \
         of up to 400 pulls built from runs (so that the lead reaches the capacity and flips sign), capacity up to 64, all variants incl. re-split at a random point; \
         non-trivial: the lead changes sign, or reaches the capacity exactly, or capacity 1, or re-split",
    );
    ctx.assume("the source is an instrumented probe whose frame k encodes k; branch X's k-th pull must return frame k, the probe's pull counter must equal max(pulls_A, pulls_B), pending_frames must equal the lag, after every single pull");
    ctx.assume("schedules are single-threaded orders of next() calls (the branch types are !Sync); a choice that would violate the lead <= capacity precondition is redirected to the other branch by construction");
    for c in ["lead changes sign", "lead reaches the capacity exactly", "capacity 1", "re-split", "re-split with frames still pending", "finite source ends while one branch is ahead", "empty ring buffer that does not start at slot 0", "source reports exhaustion while still yielding frames", "fork cloned with frames still pending"] {
        ctx.require_class(c);
    }

    let max_len = ctx.pick(16usize, 20);
    let max_cap = ctx.pick(4usize, 5);
    let mut cases = Vec::new();
    for cap in 1..=max_cap {
        for len in 0..=max_len {
            for s in valid_schedules(cap, len) {
                // alternate variants/storage/frame type deterministically
                let k = cases.len();
                cases.push(Case {
                    cap,
                    array_storage: k % 2 == 0,
                    int_frames: k % 3 == 0,
                    variant: if k % 2 == 0 { Variant::ByRef } else { Variant::ByRc },
                    choices: s,
                    split_at: 0,
                    src_len: [None, Some(2), None, Some(5)][(k / 7) % 4],
                    rb_start: k / 3,
                    tail: (k % 3) as u64,
                });
            }
        }
    }
    let n = cases.len() as u64;
    ctx.par_enumerate("all-valid-schedules", true, n, move |i| cases[i as usize].clone(), check);
    // every valid schedule up to length 10 x every split point, re-split variants
    let mut cases = Vec::new();
    for cap in 1..=ctx.pick(2usize, 3) {
        for len in 1..=ctx.pick(9usize, 12) {
            for s in valid_schedules(cap, len) {
                for split_at in 1..len {
                    let k = cases.len();
                    cases.push(Case { cap, array_storage: (k / 3) % 2 == 0, int_frames: false, variant: [Variant::ResplitRefRef, Variant::ResplitRefRc, Variant::CloneThenRef][k % 3], choices: s.clone(), split_at, src_len: if k % 5 == 0 { Some(3) } else { None }, rb_start: k % 4, tail: (k % 2) as u64 * 3 });
                }
            }
        }
    }
    let n = cases.len() as u64;
    ctx.par_enumerate("all-valid-schedules-resplit", true, n, move |i| cases[i as usize].clone(), check);
    // every valid schedule up to length 8 x every point at which one by_rc branch is dropped, then 4 more pulls of the survivor
    ctx.require_class("by_rc branch dropped while the other still has pending frames");
    let mut cases = Vec::new();
    for cap in 1..=3usize {
        for len in 0..=8usize {
            for s in valid_schedules(cap, len) {
                for variant in [Variant::RcDropA, Variant::RcDropB] {
                    let mut choices = s.clone();
                    choices.extend([true; 4]);
                    cases.push(Case { cap, array_storage: len % 2 == 0, int_frames: false, variant, choices, split_at: len, src_len: if len % 3 == 0 { Some(4) } else { None }, rb_start: len, tail: (len % 2) as u64 * 2 });
                }
            }
        }
    }
    let n = cases.len() as u64;
    ctx.par_enumerate("all-valid-schedules-rc-drop", true, n, move |i| cases[i as usize].clone(), check);
    ctx.prop("random-schedules", ctx.pick(20_000, 300_000), case_strategy(64, 400), check);
    let mut cases = Vec::new();
    for cap in 1..=6 {
        for prefill in 0..=cap {
            cases.push(NonEmptyCase { cap, prefill });
        }
    }
    ctx.enumerate("fork-requires-empty-buffer", true, cases.into_iter(), check_nonempty);
}
