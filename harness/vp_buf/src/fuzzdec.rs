//! Byte -> case decoders for the libFuzzer targets (hand-written over `arbitrary::Unstructured`;
//! derive_arbitrary is not available offline).  The decoded case goes through exactly the same
//! interpreter + oracle as the proptest / enumeration engines.

use crate::{c10, c12, c13, c14, rb};
use arbitrary::Unstructured;

fn idx(u: &mut Unstructured, n: usize) -> usize {
    if n <= 1 {
        return 0;
    }
    u.int_in_range(0..=(n - 1)).unwrap_or(0)
}

pub fn bounded(data: &[u8]) -> rb::BCase {
    let mut u = Unstructured::new(data);
    let cap = 1 + idx(&mut u, 24);
    let start = idx(&mut u, cap);
    let len = idx(&mut u, cap + 1);
    let storage = [rb::Storage::GuardedSlice, rb::Storage::Vec, rb::Storage::BoxedSlice, rb::Storage::Array][idx(&mut u, 4)];
    let storage = if storage == rb::Storage::Array && !rb::ARRAY_CAPS.contains(&cap) { rb::Storage::GuardedSlice } else { storage };
    let elem = if idx(&mut u, 2) == 0 { rb::ElemTy::U32 } else { rb::ElemTy::F32x2 };
    let mut ops = Vec::new();
    while !u.is_empty() && ops.len() < 600 {
        let a = idx(&mut u, cap + 2);
        ops.push(match idx(&mut u, 13) {
            0 | 1 | 2 => rb::BOp::Push,
            3 | 4 => rb::BOp::Pop,
            5 => rb::BOp::Get(a),
            6 => rb::BOp::GetMutSet(a),
            7 => rb::BOp::Index(a),
            8 => rb::BOp::IndexMutSet(a),
            9 => rb::BOp::IterMutSet,
            10 => rb::BOp::SlicesMutSet,
            11 => if a % 2 == 0 { rb::BOp::Drain(a) } else { rb::BOp::DrainNth(a) },
            _ => rb::BOp::Extend(a),
        });
    }
    rb::BCase { cap, start, len, storage, elem, ops }
}

pub fn fixed(data: &[u8]) -> rb::FCase {
    let mut u = Unstructured::new(data);
    let cap = 1 + idx(&mut u, 24);
    let first = idx(&mut u, cap);
    let storage = [rb::Storage::GuardedSlice, rb::Storage::Vec, rb::Storage::BoxedSlice, rb::Storage::Array][idx(&mut u, 4)];
    let storage = if storage == rb::Storage::Array && !rb::ARRAY_CAPS.contains(&cap) { rb::Storage::GuardedSlice } else { storage };
    let elem = if idx(&mut u, 2) == 0 { rb::ElemTy::U32 } else { rb::ElemTy::F32x2 };
    let mut ops = Vec::new();
    while !u.is_empty() && ops.len() < 600 {
        let a = idx(&mut u, 3 * cap);
        ops.push(match idx(&mut u, 12) {
            0 | 1 | 2 | 3 => rb::FOp::Push,
            4 => rb::FOp::Get(a),
            5 => rb::FOp::GetMutSet(a),
            6 => rb::FOp::IndexMutSet(a),
            7 | 8 => rb::FOp::SetFirst(a),
            9 => rb::FOp::IterLoop(a),
            10 => rb::FOp::IterMutSet,
            _ => rb::FOp::Extend(a % (cap + 2)),
        });
    }
    rb::FCase { cap, first, storage, elem, ops }
}

pub fn view(data: &[u8]) -> c10::ViewCase {
    let mut u = Unstructured::new(data);
    let kind = c10::VIEW_KINDS[idx(&mut u, 6)];
    let n = 1 + idx(&mut u, 32);
    let len = idx(&mut u, 2049);
    let len = if idx(&mut u, 2) == 0 { len - len % n } else { len };
    let mode = [c10::Mode::Shared, c10::Mode::Mutable, c10::Mode::Boxed][idx(&mut u, 3)];
    c10::ViewCase { kind, n, len, mode, offset: data.last().map_or(0, |b| *b as usize % 8) }
}

pub fn slice_op(data: &[u8]) -> c10::OpCase {
    let mut u = Unstructured::new(data);
    let ty = c10::FRAME_TYS[idx(&mut u, 8)];
    let op = c10::SLICE_OPS[idx(&mut u, 7)];
    let la = idx(&mut u, 300);
    let lb = if idx(&mut u, 2) == 0 { la } else { idx(&mut u, 300) };
    c10::OpCase { ty, op, la, lb, salt: idx(&mut u, 1000) as u32 }
}

pub fn fork(data: &[u8]) -> c12::Case {
    let mut u = Unstructured::new(data);
    let cap = 1 + idx(&mut u, 16);
    let array_storage = idx(&mut u, 2) == 0;
    let int_frames = idx(&mut u, 2) == 0;
    let variant = [c12::Variant::ByRef, c12::Variant::ByRc, c12::Variant::ResplitRefRef, c12::Variant::ResplitRefRc, c12::Variant::RcDropA, c12::Variant::RcDropB, c12::Variant::CloneThenRef][idx(&mut u, 7)];
    let split_at = idx(&mut u, 200);
    let mut choices = Vec::new();
    while !u.is_empty() && choices.len() < 1000 {
        // run-length coded: (branch, run length)
        let b = idx(&mut u, 2) == 0;
        let n = 1 + idx(&mut u, 2 * cap + 2);
        for _ in 0..n {
            choices.push(b);
        }
    }
    let src_len = data.last().filter(|b| **b % 3 == 0).map(|b| *b as u64 / 3 % 40);
    c12::Case { cap, array_storage, int_frames, variant, choices, split_at, src_len, rb_start: data.len(), tail: (data.len() % 3) as u64 }
}

pub fn bus(data: &[u8]) -> c13::Case {
    let mut u = Unstructured::new(data);
    let max_live = 1 + idx(&mut u, 6);
    let src_len = if idx(&mut u, 3) == 0 { Some(idx(&mut u, 60) as u64) } else { None };
    let mut ops = Vec::new();
    while !u.is_empty() && ops.len() < 600 {
        let i = idx(&mut u, max_live);
        ops.push(match idx(&mut u, 11) {
            0 | 1 => c13::Op::Send,
            2 => c13::Op::Drop(i),
            _ => c13::Op::Next(i),
        });
    }
    // the final input byte decides whether (and where) the Bus handle itself is dropped
    let drop_bus_at = data.last().filter(|b| **b % 4 == 0).map(|b| (*b as usize / 4) * ops.len() / 64);
    c13::Case { src_len, max_live, ops, drop_bus_at, tail: (data.len() % 4) as u64 }
}

pub fn buffered(data: &[u8]) -> c14::Case {
    let mut u = Unstructured::new(data);
    let cap = 1 + idx(&mut u, 32);
    let start = idx(&mut u, cap);
    let prefill = idx(&mut u, cap + 1);
    let src_len = if idx(&mut u, 4) == 0 { None } else { Some(idx(&mut u, 200) as u64) };
    let int_frames = idx(&mut u, 2) == 0;
    let drain = idx(&mut u, 2) == 0;
    let mut ops = Vec::new();
    while !u.is_empty() && ops.len() < 300 {
        ops.push(match idx(&mut u, 8) {
            0 | 1 | 2 | 3 => c14::Op::Next,
            4 => c14::Op::IsExhausted,
            5 => match idx(&mut u, 4) {
                0 => c14::Op::NextFramesCount,
                1 => c14::Op::NextFramesLast,
                _ => c14::Op::NextFramesNth(idx(&mut u, cap + 2)),
            },
            _ => c14::Op::NextFrames(idx(&mut u, cap + 2)),
        });
    }
    c14::Case { cap, start, prefill, src_len, int_frames, ops, drain, tail: (data.len() % 5) as u64, borrowed: data.len() % 3 == 1 }
}
