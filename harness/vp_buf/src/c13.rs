//! C13 — bus: every output sees a gap-free stream; the backlog holds exactly what laggards need.

use crate::probe::{Coded, Counters, Probe};
use dasp_signal::bus::{Output, SignalBus};
use dasp_signal::Signal;
use proptest::prelude::*;
use serde::{Deserialize, Serialize};
use vp_core::{ensure, CheckResult, Ctx, Stats};

#[derive(Clone, Debug, PartialEq, Eq, Serialize, Deserialize)]
pub enum Op {
    Send,
    /// index into the list of live outputs (taken modulo its length; skipped when none is live)
    Next(usize),
    Drop(usize),
    /// `n` consecutive frames from one output (a long lead over the others); the invariants are checked after the burst
    Burst(usize, u32),
    /// `n` outputs are attached and dropped again at once (none of them reads a frame); the outputs that stay live must not notice
    Churn(u32),
}

#[derive(Clone, Debug, Serialize, Deserialize)]
pub struct Case {
    /// `None` = infinite source
    pub src_len: Option<u64>,
    pub max_live: usize,
    pub ops: Vec<Op>,
    /// the `Bus` handle itself is dropped before the operation with this index (its outputs live on; later sends are skipped)
    #[serde(default)]
    pub drop_bus_at: Option<usize>,
    /// finite sources only: this many frames are still index-coded after the source reports exhaustion
    #[serde(default)]
    pub tail: u64,
}

pub fn check(c: &Case, st: &mut Stats) -> CheckResult {
    let counters = Counters::new();
    let probe: Probe<f64> = Probe::with_tail(c.src_len, c.tail, counters.clone());
    let mut bus = Some(probe.bus());
    let mut bus_dropped_with_lag = false;
    // model
    let mut p: u64 = 0; // frames pulled from the source
    let mut live: Vec<(Output<Probe<f64>>, u64)> = Vec::new(); // (output, absolute position)
    let mut send_while_lagging = false;
    let mut dropped_unique_slowest = false;
    let mut reattached = false;
    let mut ever_had_output = false;
    let mut attached_total: u64 = 0;
    for (k, op) in c.ops.iter().enumerate() {
        if c.drop_bus_at == Some(k) {
            bus_dropped_with_lag = live.iter().any(|(_, pos)| *pos < p);
            bus = None;
        }
        match op {
            Op::Send => {
                let bus = match &bus {
                    Some(b) if live.len() < c.max_live => b,
                    _ => continue,
                };
                if live.iter().any(|(_, pos)| *pos < p) {
                    send_while_lagging = true;
                }
                if ever_had_output && live.is_empty() {
                    reattached = true;
                }
                let o = bus.send();
                live.push((o, p));
                ever_had_output = true;
                attached_total += 1;
            }
            Op::Next(_) | Op::Burst(..) => {
                let (i, n) = match op {
                    Op::Next(i) => (*i, 1u64),
                    Op::Burst(i, n) => (*i, *n as u64),
                    _ => unreachable!(),
                };
                if live.is_empty() {
                    continue;
                }
                let i = i % live.len();
                for _ in 0..n {
                    let pos = live[i].1;
                    let got = live[i].0.next();
                    let exp_decode = Probe::<f64>::expected(c.src_len, c.tail, pos);
                    if pos == p {
                        p += 1;
                    }
                    live[i].1 += 1;
                    match exp_decode {
                        Some(e) => ensure!(got.decode() == Some(e), "op #{} {:?}: output (attached #{}) returned {:?} = frame {:?}, expected source frame {}", k, op, i, got, got.decode(), e),
                        None => ensure!(got.is_equilibrium(), "op #{} {:?}: expected equilibrium past the end of the source, got {:?}", k, op, got),
                    }
                }
                if n > 1 && live.iter().any(|(_, q)| p - *q > 65_536) {
                    st.class_if(true, "an output lags more than 65536 frames");
                }
            }
            Op::Churn(n) => {
                let bus = match &bus {
                    Some(b) => b,
                    None => continue,
                };
                for _ in 0..*n {
                    let o = bus.send();
                    ensure!(o.pending_frames() == 0, "op #{} {:?}: a freshly attached output reports {} pending frames", k, op, o.pending_frames());
                    drop(o);
                }
                attached_total += *n as u64;
                if attached_total > 65_536 && live.iter().any(|(_, pos)| *pos < p) {
                    st.class_if(true, "more than 65536 outputs attached to one bus while an early output still lags");
                }
            }
            Op::Drop(i) => {
                if live.is_empty() {
                    continue;
                }
                let i = i % live.len();
                let pos = live[i].1;
                let others_min = live.iter().enumerate().filter(|(j, _)| *j != i).map(|(_, (_, q))| *q).min();
                if pos < p && others_min.map_or(true, |m| m > pos) {
                    dropped_unique_slowest = true;
                }
                let (o, _) = live.remove(i);
                drop(o);
            }
        }
        // invariants after every operation
        ensure!(counters.pulls() == p, "after op #{} {:?}: source pulled {} times, model says {}", k, op, counters.pulls(), p);
        for (j, (o, pos)) in live.iter().enumerate() {
            let pend = o.pending_frames() as u64;
            ensure!(pend == p - *pos, "after op #{} {:?}: live output {} pending_frames() = {}, but it lags {} frames (P = {}, its position {})", k, op, j, pend, p - *pos, p, pos);
            let ex = o.is_exhausted();
            let exp = p - *pos == 0 && c.src_len.map_or(false, |n| p >= n);
            ensure!(ex == exp, "after op #{} {:?}: live output {} is_exhausted() = {}, expected {}", k, op, j, ex, exp);
        }
        let exp_backlog = live.iter().map(|(_, pos)| p - *pos).max().unwrap_or(0);
        let backlog = match &bus {
            Some(b) => b.verif_backlog_len() as u64,
            None => continue,
        };
        ensure!(
            backlog == exp_backlog,
            "after op #{} {:?}: backlog holds {} frames, but the slowest live output lags {} (live positions {:?}, P = {})",
            k, op, backlog, exp_backlog, live.iter().map(|(_, q)| *q).collect::<Vec<_>>(), p
        );
    }
    st.nt(send_while_lagging || dropped_unique_slowest || reattached);
    st.class_if(send_while_lagging, "send while another output lags");
    st.class_if(dropped_unique_slowest, "drop of the unique slowest output");
    st.class_if(reattached, "re-attachment after all outputs were dropped");
    st.class_if(c.src_len.is_some(), "finite source");
    st.class_if(c.src_len.map_or(false, |n| c.tail > 0 && p > n), "source reports exhaustion while still yielding frames");
    st.class_if(bus_dropped_with_lag && c.drop_bus_at.map_or(false, |k| k < c.ops.len()), "bus handle dropped while an output lags");
    Ok(())
}

/// all op sequences of length exactly `len` over at most `max_live` live slots (constructive:
/// only operations applicable in the current state)
fn all_sequences(len: usize, max_live: usize) -> Vec<Vec<Op>> {
    fn go(len: usize, max_live: usize, live: usize, cur: &mut Vec<Op>, out: &mut Vec<Vec<Op>>) {
        if cur.len() == len {
            out.push(cur.clone());
            return;
        }
        if live < max_live {
            cur.push(Op::Send);
            go(len, max_live, live + 1, cur, out);
            cur.pop();
        }
        for i in 0..live {
            cur.push(Op::Next(i));
            go(len, max_live, live, cur, out);
            cur.pop();
            cur.push(Op::Drop(i));
            go(len, max_live, live - 1, cur, out);
            cur.pop();
        }
    }
    let mut out = Vec::new();
    go(len, max_live, 0, &mut Vec::new(), &mut out);
    out
}

pub fn op_strategy(max_live: usize) -> impl Strategy<Value = Op> {
    prop_oneof![
        2 => Just(Op::Send),
        8 => (0..max_live).prop_map(Op::Next),
        // long stretches on one output / lock-step are produced by the run-length wrapper below
        1 => (0..max_live).prop_map(Op::Drop),
    ]
}

pub fn case_strategy(max_ops: usize) -> impl Strategy<Value = Case> {
    (1usize..=6, prop_oneof![2 => Just(None), 1 => (0u64..60).prop_map(Some)], 0usize..4000).prop_flat_map(move |(max_live, src_len, drop_bus)| {
        proptest::collection::vec((op_strategy(max_live), 1usize..6, any::<bool>()), 0..max_ops / 3).prop_map(move |runs| {
            let mut ops = Vec::new();
            for (op, n, lockstep) in runs {
                match (&op, lockstep) {
                    (Op::Next(_), true) => {
                        // lock-step stretch: every live output once, n times
                        for _ in 0..n {
                            for i in 0..max_live {
                                ops.push(Op::Next(i));
                            }
                        }
                    }
                    (Op::Next(_), false) => {
                        for _ in 0..n {
                            ops.push(op.clone());
                        }
                    }
                    _ => ops.push(op),
                }
            }
            ops.truncate(max_ops);
            let drop_bus_at = if drop_bus % 4 == 0 && !ops.is_empty() { Some((drop_bus / 4) % ops.len()) } else { None };
            Case { src_len, max_live, ops, drop_bus_at, tail: (drop_bus % 3) as u64 * 2 }
        })
    })
}

pub fn run(ctx: &mut Ctx) {
    ctx.set_rule(
        "cases are (source length or infinite, limit on simultaneously live outputs, sequence of send / next(output i) / drop(output i)); every applicable operation sequence of \
         every length up to 9 (thorough 11) over at most 3 live outputs, generated constructively, against an infinite source, a 3-frame source, and a source that reports exhaustion after 1 frame but keeps yielding 3 more index-coded frames; proptest sequences of up to 300 operations over up to 6 live \
         outputs with run-length structure (lock-step stretches, one output racing ahead, drops, re-attachment); in a quarter of the random cases, and after the last send of every enumerated sequence, the Bus handle itself is dropped while its outputs live on; non-trivial: a send while another output lags, a drop of the unique slowest \
         output, or re-attachment after every output was dropped",
    );
    ctx.assume("model: P = frames pulled from the source, one absolute position per live output (initialised to P at send); after EVERY operation: probe pull count == P, pending_frames == P - position, is_exhausted, and (via the cfg(rustaudio_dasp_verif) hook Bus::verif_backlog_len) backlog == P - min position");
    for c in ["send while another output lags", "drop of the unique slowest output", "re-attachment after all outputs were dropped", "bus handle dropped while an output lags", "source reports exhaustion while still yielding frames"] {
        ctx.require_class(c);
    }
    let max_len = ctx.pick(9usize, 11);
    let mut cases = Vec::new();
    for len in 0..=max_len {
        for ops in all_sequences(len, 3) {
            cases.push(Case { src_len: None, max_live: 3, ops: ops.clone(), drop_bus_at: None, tail: 0 });
            if len <= max_len - 1 {
                cases.push(Case { src_len: Some(3), max_live: 3, ops: ops.clone(), drop_bus_at: None, tail: 0 });
                cases.push(Case { src_len: Some(1), max_live: 3, ops: ops.clone(), drop_bus_at: None, tail: 3 });
            }
            // the Bus handle goes out of scope right after the last send
            if len <= max_len - 1 {
                if let Some(last_send) = ops.iter().rposition(|o| *o == Op::Send) {
                    if last_send + 1 < ops.len() {
                        cases.push(Case { src_len: None, max_live: 3, ops, drop_bus_at: Some(last_send + 1), tail: 0 });
                    }
                }
            }
        }
    }
    let n = cases.len() as u64;
    ctx.par_enumerate("all-op-sequences", true, n, move |i| cases[i as usize].clone(), check);
    ctx.prop("random-op-sequences", ctx.pick(20_000, 300_000), case_strategy(300), check);
    // long lags: the backlog is unbounded, an output that is 65535 .. 131073 frames behind still gets every frame
    ctx.require_class("an output lags more than 65536 frames");
    let mut cases = Vec::new();
    for lag in [65_535u32, 65_536, 65_537, 70_000, 131_073] {
        for third in [false, true] {
            for src_len in [None, Some(lag as u64 + 2), Some(1000)] {
                let mut ops = vec![Op::Send, Op::Send];
                if third {
                    ops.push(Op::Send);
                    ops.push(Op::Burst(2, lag / 2));
                }
                ops.push(Op::Burst(0, lag));
                ops.push(Op::Next(0));
                ops.push(Op::Burst(1, 5));
                ops.push(Op::Burst(1, lag));
                ops.push(Op::Drop(1));
                ops.push(Op::Next(0));
                ops.push(Op::Next(1));
                cases.push(Case { src_len, max_live: 3, ops, drop_bus_at: if third && lag == 70_000 { Some(5) } else { None }, tail: 0 });
            }
        }
    }
    ctx.enumerate("long-lags", false, cases.into_iter(), check);
    // many attachments over the life of one bus ("for any interleaving of attaching outputs"): two early outputs, one of them lagging,
    // stay live while n further outputs come and go - n around 2^8 and 2^16, where a narrowed output key would wrap onto a live one -
    // then one more output is attached and kept, and every output is drained
    ctx.require_class("more than 65536 outputs attached to one bus while an early output still lags");
    let mut cases = Vec::new();
    for n in [253u32, 254, 255, 256, 65_533, 65_534, 65_535, 65_536, 65_537, 70_000, 131_075] {
        for src_len in [None, Some(4u64)] {
            for split in [false, true] {
                let mut ops = vec![Op::Send, Op::Send, Op::Burst(0, 3)];
                if split {
                    ops.extend([Op::Churn(n / 2), Op::Next(1), Op::Churn(n - n / 2)]);
                } else {
                    ops.push(Op::Churn(n));
                }
                ops.extend([Op::Send, Op::Next(0), Op::Next(2), Op::Burst(1, 4), Op::Churn(3), Op::Next(2), Op::Drop(0), Op::Next(0), Op::Next(1), Op::Drop(1), Op::Next(0)]);
                cases.push(Case { src_len, max_live: 3, ops, drop_bus_at: None, tail: 0 });
            }
        }
    }
    ctx.enumerate("many-attachments", false, cases.into_iter(), check);
}
