//! vp_buf — interpreters and models for C06 (ring buffers), C10 (slices), C12 (fork),
//! C13 (bus), C14 (buffered).  A library so that the cargo-fuzz targets link the very same
//! interpreter + oracle as the proptest / enumeration binary.
pub mod c06;
pub mod c10;
pub mod c12;
pub mod c13;
pub mod c14;
pub mod fuzzdec;
pub mod probe;
pub mod rb;
