//! C06 — ring buffers: interpreter + VecDeque / rotating-array models (shared with the fuzz target).

use dasp_ring_buffer::{Bounded, Fixed, SliceMut};
use serde::{Deserialize, Serialize};
use std::collections::VecDeque;
use vp_core::{ensure, pan, CheckResult, Stats};

pub const SENT_BASE: u32 = 9_000_000; // dead-slot sentinels: SENT_BASE + slot index
pub const CANARY: u32 = 12_345_678; // guard zones around the backing slice
pub const GUARD: usize = 8;
pub const LIVE_BASE: u32 = 100; // initial live elements: LIVE_BASE + i
pub const FRESH_BASE: u32 = 1000; // k-th element pushed by the history: FRESH_BASE + k

/// element types
pub trait Elem: Copy + PartialEq + std::fmt::Debug + 'static {
    fn mk(v: u32) -> Self;
    fn id(self) -> u32;
}
impl Elem for u32 {
    fn mk(v: u32) -> Self {
        v
    }
    fn id(self) -> u32 {
        self
    }
}
impl Elem for [f32; 2] {
    fn mk(v: u32) -> Self {
        [v as f32, -(v as f32)]
    }
    fn id(self) -> u32 {
        if self[1] == -self[0] {
            self[0] as u32
        } else {
            u32::MAX
        }
    }
}

/// an iterator that reports a chosen (legal) size_hint: exact, loose upper bound, or unknown
pub struct Hinted<I> {
    it: I,
    left: usize,
    flavour: usize,
}
impl<I: Iterator> Hinted<I> {
    pub fn new(it: I, len: usize, flavour: usize) -> Self {
        Hinted { it, left: len, flavour: flavour % 3 }
    }
}
impl<I: Iterator> Iterator for Hinted<I> {
    type Item = I::Item;
    fn next(&mut self) -> Option<I::Item> {
        self.left = self.left.saturating_sub(1);
        self.it.next()
    }
    fn size_hint(&self) -> (usize, Option<usize>) {
        match self.flavour {
            0 => (self.left, Some(self.left)),
            1 => (0, Some(3 * self.left + 7)),
            _ => (0, None),
        }
    }
}

#[derive(Clone, Copy, Debug, PartialEq, Eq, Serialize, Deserialize)]
pub enum Storage {
    /// `&mut [T]` carved out of a canary-filled allocation (guard zones)
    GuardedSlice,
    Vec,
    BoxedSlice,
    /// `[T; N]` (only for the instantiated N)
    Array,
}

#[derive(Clone, Copy, Debug, PartialEq, Eq, Serialize, Deserialize)]
pub enum ElemTy {
    U32,
    F32x2,
    /// an element with a destructor (Fixed only: Bounded requires Copy elements)
    Owned,
}

#[derive(Clone, Debug, Serialize, Deserialize)]
pub enum BOp {
    Push,
    Pop,
    Get(usize),
    GetMutSet(usize),
    Index(usize),
    IndexMutSet(usize),
    Iter,
    IterMutSet,
    Slices,
    SlicesMutSet,
    /// drain().take(k), dropping the rest of the iterator
    Drain(usize),
    Extend(usize),
    Observe,
    /// drain().nth(k): pops k+1 elements (or all of them) and yields the last one popped
    DrainNth(usize),
}

#[derive(Clone, Debug, Serialize, Deserialize)]
pub struct BCase {
    pub cap: usize,
    pub start: usize,
    pub len: usize,
    pub storage: Storage,
    pub elem: ElemTy,
    pub ops: Vec<BOp>,
}

pub const ARRAY_CAPS: [usize; 7] = [1, 2, 3, 4, 5, 8, 16];

/// model of a Bounded buffer (plus a mirror of `start`, used for classification only)
struct BModel {
    q: VecDeque<u32>,
    cap: usize,
    mstart: usize,
    fresh: u32,
}

impl BModel {
    fn next_fresh(&mut self) -> u32 {
        self.fresh += 1;
        FRESH_BASE + self.fresh
    }
    fn push(&mut self, v: u32) -> Option<u32> {
        if self.q.len() == self.cap {
            let o = self.q.pop_front();
            self.q.push_back(v);
            self.mstart = (self.mstart + 1) % self.cap;
            o
        } else {
            self.q.push_back(v);
            None
        }
    }
    fn pop(&mut self) -> Option<u32> {
        let o = self.q.pop_front();
        if o.is_some() {
            self.mstart = (self.mstart + 1) % self.cap;
        }
        o
    }
}

fn observe_bounded<S, T>(rb: &Bounded<S>, m: &BModel) -> CheckResult
where
    S: SliceMut<Element = T>,
    T: Elem,
{
    let want: Vec<u32> = m.q.iter().copied().collect();
    ensure!(rb.len() == want.len(), "len() = {}, model {}", rb.len(), want.len());
    ensure!(rb.max_len() == m.cap, "max_len() = {}, capacity {}", rb.max_len(), m.cap);
    ensure!(rb.is_empty() == want.is_empty(), "is_empty() = {}, model len {}", rb.is_empty(), want.len());
    ensure!(rb.is_full() == (want.len() == m.cap), "is_full() = {}, model len {} cap {}", rb.is_full(), want.len(), m.cap);
    let it: Vec<u32> = rb.iter().map(|e| e.id()).collect();
    ensure!(it == want, "iter() yields {:?}, queue is {:?} (oldest first)", it, want);
    let (a, b) = rb.slices();
    let sl: Vec<u32> = a.iter().chain(b.iter()).map(|e| e.id()).collect();
    ensure!(sl == want, "slices() concatenated give {:?}, queue is {:?}", sl, want);
    for i in 0..want.len() + 2 {
        let g = rb.get(i).map(|e| e.id());
        ensure!(g == want.get(i).copied(), "get({}) = {:?}, queue[{}] = {:?} (queue {:?})", i, g, i, want.get(i), want);
    }
    for i in 0..want.len() {
        let g = rb[i].id();
        ensure!(g == want[i], "rb[{}] = {}, queue[{}] = {} (queue {:?})", i, g, i, want[i], want);
    }
    Ok(())
}

fn step_bounded<S, T>(rb: &mut Bounded<S>, m: &mut BModel, op: &BOp, st: &mut Stats) -> CheckResult
where
    S: SliceMut<Element = T>,
    T: Elem,
{
    let len = m.q.len();
    let cap = m.cap;
    let wrapped = m.mstart != 0;
    st.nt(wrapped);
    match op {
        BOp::Push => {
            let v = m.next_fresh();
            let exp = m.push(v);
            let got = rb.push(T::mk(v)).map(|e| e.id());
            st.class_if(wrapped && exp.is_some(), "push evicting from a wrapped buffer");
            st.class_if(m.mstart == 0 && exp.is_some() && wrapped, "push across the wrap point");
            ensure!(got == exp, "push({}) returned {:?}, model {:?}", v, got, exp);
        }
        BOp::Pop => {
            let exp = m.pop();
            let got = rb.pop().map(|e| e.id());
            st.class_if(exp.is_some() && m.mstart == 0 && cap > 1, "pop across the wrap point");
            ensure!(got == exp, "pop() returned {:?}, model {:?}", got, exp);
        }
        BOp::Get(i) => {
            let got = rb.get(*i).map(|e| e.id());
            st.class_if(wrapped && *i < len && m.mstart + i >= cap, "indexed read after wrap");
            ensure!(got == m.q.get(*i).copied(), "get({}) = {:?}, model {:?}", i, got, m.q.get(*i));
        }
        BOp::GetMutSet(i) => {
            let v = m.next_fresh();
            let exp = m.q.get(*i).copied();
            let got = rb.get_mut(*i).map(|e| {
                let old = e.id();
                *e = T::mk(v);
                old
            });
            if let Some(slot) = m.q.get_mut(*i) {
                *slot = v;
            }
            ensure!(got == exp, "get_mut({}) saw {:?}, model {:?}", i, got, exp);
        }
        BOp::Index(i) => {
            let r = pan::catch(|| rb[*i].id());
            st.class_if(wrapped && *i < len && m.mstart + i >= cap, "indexed read after wrap");
            match (r, m.q.get(*i)) {
                (Ok(g), Some(&e)) => ensure!(g == e, "rb[{}] = {}, model {}", i, g, e),
                (Err(_), None) => {}
                (Ok(g), None) => return Err(format!("rb[{}] returned {} although only {} elements are live (must panic)", i, g, len)),
                (Err(p), Some(_)) => return Err(format!("rb[{}] panicked with {} live elements: {}", i, len, p)),
            }
        }
        BOp::IndexMutSet(i) => {
            let v = m.next_fresh();
            let r = pan::catch(|| {
                let old = rb[*i].id();
                rb[*i] = T::mk(v);
                old
            });
            match (r, m.q.get(*i).copied()) {
                (Ok(g), Some(e)) => {
                    ensure!(g == e, "rb[{}] = {}, model {}", i, g, e);
                    m.q[*i] = v;
                }
                (Err(_), None) => {}
                (Ok(g), None) => return Err(format!("index_mut({}) returned {} although only {} elements are live", i, g, len)),
                (Err(p), Some(_)) => return Err(format!("index_mut({}) panicked with {} live elements: {}", i, len, p)),
            }
        }
        BOp::Iter => {
            let it: Vec<u32> = rb.iter().map(|e| e.id()).collect();
            let want: Vec<u32> = m.q.iter().copied().collect();
            ensure!(it == want, "iter() yields {:?}, queue is {:?}", it, want);
            vp_core::iterlaws::iter_laws("Bounded::iter()", || rb.iter().map(|e| e.id()), &want, true)?;
        }
        BOp::DrainNth(k) => {
            let got = rb.drain().nth(*k).map(|e| e.id());
            let mut exp = None;
            for _ in 0..=*k {
                exp = m.pop();
                if exp.is_none() {
                    break;
                }
            }
            st.class_if(*k > 0 && *k < len, "drain partially");
            ensure!(got == exp, "drain().nth({}) = {:?}, model {:?}", k, got, exp);
        }
        BOp::IterMutSet => {
            let mut seen = Vec::new();
            let base = m.fresh;
            for (k, e) in rb.iter_mut().enumerate() {
                seen.push(e.id());
                *e = T::mk(FRESH_BASE + base + 1 + k as u32);
            }
            let want: Vec<u32> = m.q.iter().copied().collect();
            ensure!(seen == want, "iter_mut() yields {:?}, queue is {:?}", seen, want);
            for (k, slot) in m.q.iter_mut().enumerate() {
                *slot = FRESH_BASE + base + 1 + k as u32;
            }
            m.fresh += want.len() as u32;
        }
        BOp::Slices => {
            let (a, b) = rb.slices();
            let sl: Vec<u32> = a.iter().chain(b.iter()).map(|e| e.id()).collect();
            let want: Vec<u32> = m.q.iter().copied().collect();
            st.class_if(!b.is_empty(), "slices: both halves non-empty");
            ensure!(sl == want, "slices() give {:?}, queue is {:?}", sl, want);
        }
        BOp::SlicesMutSet => {
            let base = m.fresh;
            let mut seen = Vec::new();
            {
                let (a, b) = rb.slices_mut();
                for (k, e) in a.iter_mut().chain(b.iter_mut()).enumerate() {
                    seen.push(e.id());
                    *e = T::mk(FRESH_BASE + base + 1 + k as u32);
                }
            }
            let want: Vec<u32> = m.q.iter().copied().collect();
            ensure!(seen == want, "slices_mut() give {:?}, queue is {:?}", seen, want);
            for (k, slot) in m.q.iter_mut().enumerate() {
                *slot = FRESH_BASE + base + 1 + k as u32;
            }
            m.fresh += want.len() as u32;
        }
        BOp::Drain(k) => {
            let mut got = Vec::new();
            {
                let mut d = rb.drain();
                ensure!(d.len() == len, "drain().len() = {}, model {}", d.len(), len);
                for _ in 0..*k {
                    match d.next() {
                        Some(e) => got.push(e.id()),
                        None => break,
                    }
                }
            }
            let mut want = Vec::new();
            for _ in 0..*k {
                match m.pop() {
                    Some(e) => want.push(e),
                    None => break,
                }
            }
            st.class_if(*k > 0 && *k < len, "drain partially");
            ensure!(got == want, "drain().take({}) yielded {:?}, model {:?}", k, got, want);
        }
        BOp::Extend(n) => {
            let vals: Vec<u32> = (0..*n).map(|_| m.next_fresh()).collect();
            for &v in &vals {
                m.push(v);
            }
            // the value of n also selects the iterator's size_hint flavour (exact / loose upper bound / unknown)
            rb.extend(Hinted::new(vals.iter().map(|&v| T::mk(v)), vals.len(), *n / 2));
        }
        BOp::Observe => {}
    }
    observe_bounded(rb, m)
}

/// storage with every slot initialised: live slots LIVE_BASE + i, dead slots SENT_BASE + slot
fn init_slots<T: Elem>(cap: usize, start: usize, len: usize) -> Vec<T> {
    let mut v: Vec<T> = (0..cap).map(|s| T::mk(SENT_BASE + s as u32)).collect();
    for i in 0..len {
        v[(start + i) % cap] = T::mk(LIVE_BASE + i as u32);
    }
    v
}

fn run_ops_bounded<S, T>(mut rb: Bounded<S>, c: &BCase, st: &mut Stats) -> Result<Bounded<S>, String>
where
    S: SliceMut<Element = T>,
    T: Elem,
{
    let mut m = BModel {
        q: (0..c.len).map(|i| LIVE_BASE + i as u32).collect(),
        cap: c.cap,
        mstart: c.start,
        fresh: 0,
    };
    observe_bounded(&rb, &m).map_err(|e| format!("initial state: {}", e))?;
    let mut popped_then_pushed = false;
    let mut last_pop = false;
    for (k, op) in c.ops.iter().enumerate() {
        step_bounded(&mut rb, &mut m, op, st).map_err(|e| format!("op #{} {:?}: {}", k, op, e))?;
        if matches!(op, BOp::Push) && last_pop && m.mstart != 0 {
            popped_then_pushed = true;
        }
        last_pop = matches!(op, BOp::Pop | BOp::Drain(_));
    }
    st.class_if(popped_then_pushed, "pop-then-push in a wrapped buffer");
    st.class_if(c.start != 0, "initial start != 0");
    Ok(rb)
}

fn finish_raw<S, T>(rb: Bounded<S>, cap: usize) -> CheckResult
where
    S: SliceMut<Element = T>,
    T: Elem,
{
    // into_raw_parts is documented; used only to assert the invariant all unchecked accesses rely on
    let len = rb.len();
    let want: Vec<u32> = rb.iter().map(|e| e.id()).collect();
    let (start, l2, data) = unsafe { rb.into_raw_parts() };
    ensure!(start < cap, "raw start {} >= capacity {}", start, cap);
    ensure!(l2 == len && l2 <= cap, "raw len {} (len() said {}, capacity {})", l2, len, cap);
    for i in 0..len {
        let g = data.slice()[(start + i) % cap].id();
        ensure!(g == want[i], "raw data[(start+{})%cap] = {}, queue[{}] = {}", i, g, i, want[i]);
    }
    Ok(())
}

fn bounded_elem<T: Elem>(c: &BCase, st: &mut Stats) -> CheckResult {
    ensure!(c.cap >= 1 && c.start < c.cap && c.len <= c.cap, "bad case: invalid raw parts");
    let slots: Vec<T> = init_slots(c.cap, c.start, c.len);
    match c.storage {
        Storage::GuardedSlice => {
            let mut big: Vec<T> = vec![T::mk(CANARY); c.cap + 2 * GUARD];
            big[GUARD..GUARD + c.cap].copy_from_slice(&slots);
            {
                let mid: &mut [T] = &mut big[GUARD..GUARD + c.cap];
                let rb = Bounded::from_raw_parts(c.start, c.len, mid);
                let rb = run_ops_bounded(rb, c, st)?;
                finish_raw(rb, c.cap)?;
            }
            for (i, e) in big[..GUARD].iter().chain(big[GUARD + c.cap..].iter()).enumerate() {
                ensure!(e.id() == CANARY, "guard zone element {} overwritten with {:?}", i, e);
            }
            Ok(())
        }
        Storage::Vec => {
            let rb = Bounded::from_raw_parts(c.start, c.len, slots);
            let rb = run_ops_bounded(rb, c, st)?;
            finish_raw(rb, c.cap)
        }
        Storage::BoxedSlice => {
            let rb = Bounded::from_raw_parts(c.start, c.len, slots.into_boxed_slice());
            let rb = run_ops_bounded(rb, c, st)?;
            finish_raw(rb, c.cap)
        }
        Storage::Array => {
            macro_rules! arr {
                ($($N:literal)*) => {
                    match c.cap {
                        $( $N => {
                            let a: [T; $N] = core::array::from_fn(|i| slots[i]);
                            let rb = Bounded::from_raw_parts(c.start, c.len, a);
                            let rb = run_ops_bounded(rb, c, st)?;
                            finish_raw(rb, c.cap)
                        } )*
                        _ => Err("bad case: array capacity not instantiated".to_string()),
                    }
                };
            }
            arr!(1 2 3 4 5 8 16)
        }
    }
}

pub fn check_bounded(c: &BCase, st: &mut Stats) -> CheckResult {
    match c.elem {
        ElemTy::U32 => bounded_elem::<u32>(c, st),
        ElemTy::F32x2 => bounded_elem::<[f32; 2]>(c, st),
        ElemTy::Owned => Err("bad case: Bounded requires Copy elements".into()),
    }
}

// ------------------------------------------------------------------------------------ Fixed

#[derive(Clone, Debug, Serialize, Deserialize)]
pub enum FOp {
    Push,
    Get(usize),
    GetMutSet(usize),
    Index(usize),
    IndexMutSet(usize),
    SetFirst(usize),
    Slices,
    SlicesMutSet,
    Iter,
    IterLoop(usize),
    IterMutSet,
    Extend(usize),
    Observe,
}

#[derive(Clone, Debug, Serialize, Deserialize)]
pub struct FCase {
    pub cap: usize,
    pub first: usize,
    pub storage: Storage,
    pub elem: ElemTy,
    pub ops: Vec<FOp>,
}

struct FModel {
    q: VecDeque<u32>, // oldest first, always `cap` long
    cap: usize,
    mfirst: usize,
    fresh: u32,
    /// values pushed, in order (to state "a push returns the value pushed N pushes earlier")
    pushed: Vec<u32>,
    /// number of pushes since the last reordering (set_first / indexed write)
    clean_pushes: usize,
}

fn observe_fixed<S, T>(rb: &Fixed<S>, m: &FModel) -> CheckResult
where
    S: SliceMut<Element = T>,
    T: Elem,
{
    let want: Vec<u32> = m.q.iter().copied().collect();
    let n = m.cap;
    ensure!(rb.len() == n, "len() = {}, must stay {}", rb.len(), n);
    let it: Vec<u32> = rb.iter().map(|e| e.id()).collect();
    ensure!(it == want, "iter() yields {:?}, model {:?} (oldest first)", it, want);
    let (a, b) = rb.slices();
    let sl: Vec<u32> = a.iter().chain(b.iter()).map(|e| e.id()).collect();
    ensure!(sl == want, "slices() concatenated give {:?}, model {:?}", sl, want);
    for i in 0..3 * n {
        let g = rb.get(i).id();
        ensure!(g == want[i % n], "get({}) = {}, model[{} mod {}] = {}", i, g, i, n, want[i % n]);
    }
    let lp: Vec<u32> = rb.iter_loop().take(2 * n + 1).map(|e| e.id()).collect();
    let wl: Vec<u32> = (0..2 * n + 1).map(|i| want[i % n]).collect();
    ensure!(lp == wl, "iter_loop() yields {:?}, expected {:?}", lp, wl);
    Ok(())
}

fn step_fixed<S, T>(rb: &mut Fixed<S>, m: &mut FModel, op: &FOp, st: &mut Stats) -> CheckResult
where
    S: SliceMut<Element = T>,
    T: Elem,
{
    let n = m.cap;
    st.nt(m.mfirst != 0);
    match op {
        FOp::Push => {
            m.fresh += 1;
            let v = FRESH_BASE + m.fresh;
            let exp = m.q.pop_front().unwrap();
            m.q.push_back(v);
            let before0 = rb.get(0).id();
            let got = rb.push(T::mk(v)).id();
            st.class_if(m.mfirst == n - 1 && n > 1, "push wrapping first to 0");
            m.mfirst = (m.mfirst + 1) % n;
            ensure!(got == exp, "push({}) returned {}, the oldest element was {}", v, got, exp);
            ensure!(got == before0, "push returned {}, but index 0 held {}", got, before0);
            ensure!(rb.get(n - 1).id() == v, "after push({}) index N-1 holds {}", v, rb.get(n - 1).id());
            // a push returns exactly the value pushed N pushes earlier
            m.pushed.push(v);
            m.clean_pushes += 1;
            if m.clean_pushes > n {
                let earlier = m.pushed[m.pushed.len() - 1 - n];
                ensure!(got == earlier, "push returned {}, but the value pushed {} pushes earlier was {}", got, n, earlier);
                st.class("push returns value pushed N pushes earlier");
            }
        }
        FOp::Get(i) => {
            let g = rb.get(*i).id();
            st.class_if(*i >= n, "index wraps modulo N");
            ensure!(g == m.q[*i % n], "get({}) = {}, model {}", i, g, m.q[*i % n]);
        }
        FOp::GetMutSet(i) => {
            m.fresh += 1;
            let v = FRESH_BASE + m.fresh;
            let slot = rb.get_mut(*i);
            let old = slot.id();
            *slot = T::mk(v);
            ensure!(old == m.q[*i % n], "get_mut({}) saw {}, model {}", i, old, m.q[*i % n]);
            m.q[*i % n] = v;
            m.clean_pushes = 0;
        }
        FOp::Index(i) => {
            let g = rb[*i].id();
            ensure!(g == m.q[*i % n], "rb[{}] = {}, model {}", i, g, m.q[*i % n]);
        }
        FOp::IndexMutSet(i) => {
            m.fresh += 1;
            let v = FRESH_BASE + m.fresh;
            let old = rb[*i].id();
            rb[*i] = T::mk(v);
            ensure!(old == m.q[*i % n], "rb[{}] was {}, model {}", i, old, m.q[*i % n]);
            m.q[*i % n] = v;
            m.clean_pushes = 0;
        }
        FOp::SetFirst(i) => {
            // set_first(i) makes the slot with *backing* index i mod N the first one; in model
            // terms that is a rotation by (i - first) mod N
            rb.set_first(*i);
            let target = *i % n;
            let rot = (target + n - m.mfirst) % n;
            m.q.rotate_left(rot);
            m.mfirst = target;
            m.clean_pushes = 0;
            st.class("set_first");
        }
        FOp::Slices => {
            let (a, b) = rb.slices();
            st.class_if(!b.is_empty(), "slices: both halves non-empty");
            let sl: Vec<u32> = a.iter().chain(b.iter()).map(|e| e.id()).collect();
            let want: Vec<u32> = m.q.iter().copied().collect();
            ensure!(sl == want, "slices() give {:?}, model {:?}", sl, want);
        }
        FOp::SlicesMutSet | FOp::IterMutSet => {
            let base = m.fresh;
            let mut seen = Vec::new();
            if matches!(op, FOp::SlicesMutSet) {
                let (a, b) = rb.slices_mut();
                for (k, e) in a.iter_mut().chain(b.iter_mut()).enumerate() {
                    seen.push(e.id());
                    *e = T::mk(FRESH_BASE + base + 1 + k as u32);
                }
            } else {
                for (k, e) in rb.iter_mut().enumerate() {
                    seen.push(e.id());
                    *e = T::mk(FRESH_BASE + base + 1 + k as u32);
                }
            }
            let want: Vec<u32> = m.q.iter().copied().collect();
            ensure!(seen == want, "mutable iteration yields {:?}, model {:?}", seen, want);
            for (k, slot) in m.q.iter_mut().enumerate() {
                *slot = FRESH_BASE + base + 1 + k as u32;
            }
            m.fresh += n as u32;
            m.clean_pushes = 0;
        }
        FOp::Iter => {
            let it: Vec<u32> = rb.iter().map(|e| e.id()).collect();
            let want: Vec<u32> = m.q.iter().copied().collect();
            ensure!(it == want, "iter() yields {:?}, model {:?}", it, want);
            vp_core::iterlaws::iter_laws("Fixed::iter()", || rb.iter().map(|e| e.id()), &want, true)?;
            let looped: Vec<u32> = (0..3 * n).map(|i| want[i % n]).collect();
            vp_core::iterlaws::iter_laws("Fixed::iter_loop()", || rb.iter_loop().map(|e| e.id()), &looped, false)?;
        }
        FOp::IterLoop(k) => {
            let lp: Vec<u32> = rb.iter_loop().take(*k).map(|e| e.id()).collect();
            let wl: Vec<u32> = (0..*k).map(|i| m.q[i % n]).collect();
            ensure!(lp == wl, "iter_loop().take({}) yields {:?}, expected {:?}", k, lp, wl);
        }
        FOp::Extend(k) => {
            let vals: Vec<u32> = (0..*k)
                .map(|_| {
                    m.fresh += 1;
                    FRESH_BASE + m.fresh
                })
                .collect();
            for &v in &vals {
                m.q.pop_front();
                m.q.push_back(v);
                m.mfirst = (m.mfirst + 1) % n;
                m.pushed.push(v);
                m.clean_pushes += 1;
            }
            rb.extend(Hinted::new(vals.iter().map(|&v| T::mk(v)), vals.len(), *k / 2));
        }
        FOp::Observe => {}
    }
    observe_fixed(rb, m)
}

fn run_ops_fixed<S, T>(mut rb: Fixed<S>, c: &FCase, st: &mut Stats) -> CheckResult
where
    S: SliceMut<Element = T>,
    T: Elem,
{
    let mut m = FModel {
        q: (0..c.cap).map(|i| LIVE_BASE + i as u32).collect(),
        cap: c.cap,
        mfirst: c.first,
        fresh: 0,
        pushed: Vec::new(),
        clean_pushes: 0,
    };
    observe_fixed(&rb, &m).map_err(|e| format!("initial state: {}", e))?;
    let mut set_first_then_push = false;
    let mut last_set_first = false;
    for (k, op) in c.ops.iter().enumerate() {
        step_fixed(&mut rb, &mut m, op, st).map_err(|e| format!("op #{} {:?}: {}", k, op, e))?;
        if matches!(op, FOp::Push) && last_set_first {
            set_first_then_push = true;
        }
        last_set_first = matches!(op, FOp::SetFirst(_));
    }
    st.class_if(set_first_then_push, "set_first then push");
    st.class_if(c.first != 0, "initial first != 0");
    let (first, data) = rb.into_raw_parts();
    ensure!(first < c.cap, "raw first {} >= length {}", first, c.cap);
    for i in 0..c.cap {
        ensure!(data.slice()[(first + i) % c.cap].id() == m.q[i], "raw data[(first+{})%N] differs from the model", i);
    }
    Ok(())
}

fn fixed_elem<T: Elem>(c: &FCase, st: &mut Stats) -> CheckResult {
    ensure!(c.cap >= 1 && c.first < c.cap, "bad case: invalid raw parts");
    let slots: Vec<T> = init_slots(c.cap, c.first, c.cap);
    match c.storage {
        Storage::GuardedSlice => {
            let mut big: Vec<T> = vec![T::mk(CANARY); c.cap + 2 * GUARD];
            big[GUARD..GUARD + c.cap].copy_from_slice(&slots);
            {
                let mid: &mut [T] = &mut big[GUARD..GUARD + c.cap];
                run_ops_fixed(Fixed::from_raw_parts(c.first, mid), c, st)?;
            }
            for (i, e) in big[..GUARD].iter().chain(big[GUARD + c.cap..].iter()).enumerate() {
                ensure!(e.id() == CANARY, "guard zone element {} overwritten with {:?}", i, e);
            }
            Ok(())
        }
        Storage::Vec => run_ops_fixed(Fixed::from_raw_parts(c.first, slots), c, st),
        Storage::BoxedSlice => run_ops_fixed(Fixed::from_raw_parts(c.first, slots.into_boxed_slice()), c, st),
        Storage::Array => {
            macro_rules! arr {
                ($($N:literal)*) => {
                    match c.cap {
                        $( $N => {
                            let a: [T; $N] = core::array::from_fn(|i| slots[i]);
                            run_ops_fixed(Fixed::from_raw_parts(c.first, a), c, st)
                        } )*
                        _ => Err("bad case: array capacity not instantiated".to_string()),
                    }
                };
            }
            arr!(1 2 3 4 5 8 16)
        }
    }
}

pub fn check_fixed(c: &FCase, st: &mut Stats) -> CheckResult {
    match c.elem {
        ElemTy::U32 => fixed_elem::<u32>(c, st),
        ElemTy::F32x2 => fixed_elem::<[f32; 2]>(c, st),
        ElemTy::Owned => fixed_owned(c, st),
    }
}

// ------------------------------------------------------------------------------------ Fixed over elements with a destructor

thread_local! {
    /// per-case ledger: number of times the destructor of element `id` has run
    static LEDGER: std::cell::RefCell<Vec<u8>> = std::cell::RefCell::new(Vec::new());
}

/// An element that is not `Copy` and records its own destruction. It owns no heap memory, so a double drop
/// shows up in the ledger instead of corrupting the harness.
#[derive(Debug)]
pub struct Owned {
    id: u32,
}
impl Owned {
    fn mk() -> Owned {
        LEDGER.with(|l| {
            let mut l = l.borrow_mut();
            l.push(0);
            Owned { id: l.len() as u32 - 1 }
        })
    }
}
impl Drop for Owned {
    fn drop(&mut self) {
        LEDGER.with(|l| {
            let mut l = l.borrow_mut();
            let c = &mut l[self.id as usize];
            *c = c.saturating_add(1);
        })
    }
}
fn drops(id: u32) -> u8 {
    LEDGER.with(|l| l.borrow()[id as usize])
}

/// every element ever created is either live in the buffer (destructor never ran) or gone (ran exactly once)
fn ledger_agrees(live: &VecDeque<u32>, what: &str) -> CheckResult {
    let n = LEDGER.with(|l| l.borrow().len()) as u32;
    for id in 0..n {
        let d = drops(id);
        if live.contains(&id) {
            ensure!(d == 0, "{}: element #{} is live in the buffer but its destructor has run {} time(s)", what, id, d);
        } else {
            ensure!(d == 1, "{}: element #{} left the buffer and its destructor has run {} times (must be exactly once)", what, id, d);
        }
    }
    Ok(())
}

fn fixed_owned(c: &FCase, st: &mut Stats) -> CheckResult {
    ensure!(c.cap >= 1 && c.first < c.cap, "bad case: invalid raw parts");
    LEDGER.with(|l| l.borrow_mut().clear());
    let n = c.cap;
    // backing slot j holds element #j; oldest-first order starts at `first`
    let slots: Vec<Owned> = (0..n).map(|_| Owned::mk()).collect();
    let mut q: VecDeque<u32> = (0..n).map(|i| ((c.first + i) % n) as u32).collect();
    let mut mfirst = c.first;
    let mut rb = Fixed::from_raw_parts(c.first, slots);
    let mut pushes = 0usize;
    for (k, op) in c.ops.iter().enumerate() {
        let what = format!("op #{} {:?}", k, op);
        match op {
            FOp::Push => {
                let new = Owned::mk();
                let new_id = new.id;
                let exp = q.pop_front().unwrap();
                q.push_back(new_id);
                mfirst = (mfirst + 1) % n;
                let got = rb.push(new);
                let (gid, d) = (got.id, drops(got.id));
                if gid != exp || d != 0 {
                    std::mem::forget(got);
                    ensure!(gid == exp, "{}: push returned element #{}, the oldest element was #{}", what, gid, exp);
                    return Err(format!("{}: push returned element #{} whose destructor has already run {} time(s): the slot held no live element", what, gid, d));
                }
                drop(got);
                pushes += 1;
            }
            FOp::Extend(m) => {
                let items: Vec<Owned> = (0..*m).map(|_| Owned::mk()).collect();
                for it in &items {
                    q.pop_front();
                    q.push_back(it.id);
                    mfirst = (mfirst + 1) % n;
                }
                let len = items.len();
                rb.extend(Hinted::new(items.into_iter(), len, *m / 2));
                pushes += *m;
            }
            FOp::GetMutSet(i) | FOp::IndexMutSet(i) => {
                let new = Owned::mk();
                let new_id = new.id;
                let old = if matches!(op, FOp::GetMutSet(_)) { std::mem::replace(rb.get_mut(*i), new) } else { std::mem::replace(&mut rb[*i], new) };
                ensure!(old.id == q[*i % n], "{}: slot held element #{}, model #{}", what, old.id, q[*i % n]);
                ensure!(drops(old.id) == 0, "{}: slot {} exposed element #{} whose destructor has already run", what, i, old.id);
                q[*i % n] = new_id;
            }
            FOp::SetFirst(i) => {
                rb.set_first(*i);
                let target = *i % n;
                q.rotate_left((target + n - mfirst) % n);
                mfirst = target;
            }
            _ => {}
        }
        let it: Vec<u32> = rb.iter().map(|e| e.id).collect();
        let want: Vec<u32> = q.iter().copied().collect();
        ensure!(it == want, "{}: iter() yields elements {:?}, model {:?} (oldest first)", what, it, want);
        ensure!((0..2 * n).all(|i| rb.get(i).id == want[i % n]), "{}: get(i) disagrees with the model {:?}", what, want);
        ledger_agrees(&q, &what)?;
    }
    st.nt(pushes > 0 && c.first != 0);
    st.class_if(pushes > n, "owned elements: more pushes than slots");
    drop(rb);
    ledger_agrees(&VecDeque::new(), "after dropping the buffer")
}

// ------------------------------------------------------------------------------------ constructors

#[derive(Clone, Debug, Serialize, Deserialize)]
pub struct CtorCase {
    pub cap: usize,
    pub start: usize,
    pub len: usize,
}

/// from_raw_parts / from / from_full accept exactly the documented valid parts
pub fn check_ctor(c: &CtorCase, st: &mut Stats) -> CheckResult {
    let valid_b = c.start < c.cap && c.len <= c.cap;
    st.nt(!valid_b);
    st.class_if(c.cap == 0, "empty storage");
    let r = pan::catch(|| {
        let rb = Bounded::from_raw_parts(c.start, c.len, vec![0u32; c.cap]);
        (rb.len(), rb.max_len())
    });
    match (r, valid_b) {
        (Ok((l, m)), true) => ensure!(l == c.len && m == c.cap, "from_raw_parts({}, {}, cap {}) gives len {} max_len {}", c.start, c.len, c.cap, l, m),
        (Err(_), false) => {}
        (Ok(_), false) => return Err(format!("Bounded::from_raw_parts(start {}, len {}, capacity {}) accepted invalid parts", c.start, c.len, c.cap)),
        (Err(p), true) => return Err(format!("Bounded::from_raw_parts(start {}, len {}, capacity {}) rejected valid parts: {}", c.start, c.len, c.cap, p)),
    }
    let valid_f = c.start < c.cap;
    let r = pan::catch(|| Fixed::from_raw_parts(c.start, vec![0u32; c.cap]).len());
    match (r, valid_f) {
        (Ok(l), true) => ensure!(l == c.cap, "Fixed::from_raw_parts len {}", l),
        (Err(_), false) => {}
        (Ok(_), false) => return Err(format!("Fixed::from_raw_parts(first {}, length {}) accepted invalid parts", c.start, c.cap)),
        (Err(p), true) => return Err(format!("Fixed::from_raw_parts(first {}, length {}) rejected valid parts: {}", c.start, c.cap, p)),
    }
    if c.start == 0 && c.len == 0 {
        // Bounded::from / from_full / Fixed::from over storage of `cap` elements
        let r = pan::catch(|| {
            let a = Bounded::from(vec![7u32; c.cap]);
            let b = Bounded::from_full(vec![7u32; c.cap]);
            let f = Fixed::from(vec![7u32; c.cap]);
            (a.len(), a.max_len(), b.len(), b.is_full(), f.len())
        });
        match (r, c.cap > 0) {
            (Ok(t), true) => {
                ensure!(t == (0, c.cap, c.cap, true, c.cap), "from/from_full over {} elements: {:?}", c.cap, t);
                // FromIterator: the collected storage becomes an empty bounded buffer / a full fixed one, oldest first
                let b: Bounded<Vec<u32>> = (0..c.cap as u32).collect();
                ensure!(b.len() == 0 && b.max_len() == c.cap && b.iter().next().is_none(), "Bounded::from_iter over {} items: len {} max_len {}", c.cap, b.len(), b.max_len());
                let f: Fixed<Vec<u32>> = (0..c.cap as u32).collect();
                ensure!(f.len() == c.cap && f.iter().copied().eq(0..c.cap as u32) && *f.get(c.cap) == 0, "Fixed::from_iter over {} items is not the items oldest-first", c.cap);
            }
            (Err(_), false) => {}
            (Ok(_), false) => return Err("from / from_full accepted empty storage".into()),
            (Err(p), true) => return Err(format!("from / from_full rejected storage of {} elements: {}", c.cap, p)),
        }
    }
    Ok(())
}
