//! Format table and exact amplitude arithmetic (DESIGN §3.1).  Nothing here calls dasp's
//! conversion or arithmetic code; dasp_sample is used only for the *types* (and `.inner()` /
//! `new_unchecked` of the custom-width ones).

use crate::softfloat as sf;
use dasp_sample::{I24, I48, U24, U48};
use serde::{Deserialize, Serialize};

#[derive(Clone, Copy, Debug, PartialEq, Eq, Serialize, Deserialize)]
pub enum Kind {
    Int { bits: u32, signed: bool },
    F32,
    F64,
}

/// Dynamic sample value: raw integer as stored by the format, or float bits.
#[derive(Clone, Copy, Debug, PartialEq, Serialize, Deserialize)]
pub enum Val {
    I(i128),
    F32(f32),
    F64(f64),
}

impl Kind {
    pub fn bits(self) -> u32 {
        match self {
            Kind::Int { bits, .. } => bits,
            Kind::F32 => 32,
            Kind::F64 => 64,
        }
    }
    pub fn is_int(self) -> bool {
        matches!(self, Kind::Int { .. })
    }
    pub fn half(self) -> i128 {
        1i128 << (self.bits() - 1)
    }
    /// raw offset of equilibrium (0 for signed, 2^(bits-1) for unsigned)
    pub fn offset(self) -> i128 {
        match self {
            Kind::Int { bits, signed: false } => 1i128 << (bits - 1),
            _ => 0,
        }
    }
    pub fn min_raw(self) -> i128 {
        -self.half() + self.offset()
    }
    pub fn max_raw(self) -> i128 {
        self.half() - 1 + self.offset()
    }
    pub fn eq_raw(self) -> i128 {
        self.offset()
    }
    pub fn in_range_raw(self, r: i128) -> bool {
        r >= self.min_raw() && r <= self.max_raw()
    }
    pub fn in_range_amp(self, a: i128) -> bool {
        a >= -self.half() && a < self.half()
    }
    /// the `Signed` companion of the format (dasp_sample/src/lib.rs:260-275)
    pub fn signed_companion(self) -> Kind {
        match self {
            Kind::Int { bits: 24, signed: false } => Kind::Int { bits: 32, signed: true },
            Kind::Int { bits: 48, signed: false } => Kind::Int { bits: 64, signed: true },
            Kind::Int { bits, .. } => Kind::Int { bits, signed: true },
            k => k,
        }
    }
    /// the `Float` companion of the format
    pub fn float_companion(self) -> Kind {
        match self {
            Kind::Int { bits, .. } if bits <= 32 => Kind::F32,
            Kind::Int { .. } => Kind::F64,
            k => k,
        }
    }
    /// mantissa precision of the float companion
    pub fn float_p(self) -> u32 {
        match self.float_companion() {
            Kind::F32 => 24,
            _ => 53,
        }
    }
    pub fn name(self) -> &'static str {
        match self {
            Kind::Int { bits: 8, signed: true } => "i8",
            Kind::Int { bits: 16, signed: true } => "i16",
            Kind::Int { bits: 24, signed: true } => "I24",
            Kind::Int { bits: 32, signed: true } => "i32",
            Kind::Int { bits: 48, signed: true } => "I48",
            Kind::Int { bits: 64, signed: true } => "i64",
            Kind::Int { bits: 8, signed: false } => "u8",
            Kind::Int { bits: 16, signed: false } => "u16",
            Kind::Int { bits: 24, signed: false } => "U24",
            Kind::Int { bits: 32, signed: false } => "u32",
            Kind::Int { bits: 48, signed: false } => "U48",
            Kind::Int { bits: 64, signed: false } => "u64",
            Kind::F32 => "f32",
            Kind::F64 => "f64",
            _ => "?",
        }
    }
}

pub fn floor_shift(a: i128, sh: i32) -> i128 {
    if sh >= 0 {
        a << sh
    } else {
        a >> (-sh) // arithmetic shift = floor division by a power of two
    }
}

/// Signed amplitude of an integer raw value.
pub fn amp(k: Kind, raw: i128) -> i128 {
    raw - k.offset()
}

/// Reference int -> int conversion (the statement of C01, verbatim).
pub fn conv_int_int(src: Kind, raw: i128, dst: Kind) -> i128 {
    let a = amp(src, raw);
    floor_shift(a, dst.bits() as i32 - src.bits() as i32) + dst.offset()
}

/// Reference int -> float: correctly rounded amp / 2^(bits-1).
pub fn conv_int_f32(src: Kind, raw: i128) -> f32 {
    sf::round_i128_to_f32(amp(src, raw), -(src.bits() as i32 - 1))
}
pub fn conv_int_f64(src: Kind, raw: i128) -> f64 {
    sf::round_i128_to_f64(amp(src, raw), -(src.bits() as i32 - 1))
}

/// Reference float -> int for x in [-1, 1): trunc(x * 2^(bits-1)) re-offset.  `None` when the
/// truncated product is outside the target's amplitude range (input outside the documented
/// domain).
pub fn conv_dec_int(d: sf::Dec, dst: Kind) -> Option<i128> {
    let t = sf::trunc_scaled(d, dst.bits() as i32 - 1)?;
    if !dst.in_range_amp(t) {
        return None;
    }
    Some(t + dst.offset())
}

/// Generic reference conversion between any two of the 14 formats.  Float sources must be in
/// the documented domain when the target is an integer (`None` otherwise).
pub fn conv(src: Kind, v: Val, dst: Kind) -> Option<Val> {
    Some(match (v, dst) {
        (Val::I(r), Kind::Int { .. }) => Val::I(conv_int_int(src, r, dst)),
        (Val::I(r), Kind::F32) => Val::F32(conv_int_f32(src, r)),
        (Val::I(r), Kind::F64) => Val::F64(conv_int_f64(src, r)),
        (Val::F32(x), Kind::Int { .. }) => Val::I(conv_dec_int(sf::dec_f32(x)?, dst)?),
        (Val::F64(x), Kind::Int { .. }) => Val::I(conv_dec_int(sf::dec_f64(x)?, dst)?),
        (Val::F32(x), Kind::F32) => Val::F32(x),
        (Val::F32(x), Kind::F64) => Val::F64(sf::f32_to_f64_ref(x)),
        (Val::F64(x), Kind::F32) => Val::F32(sf::f64_to_f32_ref(x)),
        (Val::F64(x), Kind::F64) => Val::F64(x),
    })
}

/// Typed view of a sample format.
pub trait Fmt:
    dasp_sample::Sample + Copy + core::fmt::Debug + PartialEq + PartialOrd + Send + Sync + 'static
{
    const KIND: Kind;
    fn to_val(self) -> Val;
    /// `v` must be of the right variant and in range.
    fn from_val(v: Val) -> Self;
    fn name() -> &'static str {
        Self::KIND.name()
    }
}

/// Integer formats.
pub trait IntFmt: Fmt {
    const BITS: u32;
    const SIGNED: bool;
    fn raw(self) -> i128 {
        match self.to_val() {
            Val::I(r) => r,
            _ => unreachable!(),
        }
    }
    fn from_raw(r: i128) -> Self {
        debug_assert!(Self::KIND.in_range_raw(r), "from_raw out of range");
        Self::from_val(Val::I(r))
    }
    fn from_amp(a: i128) -> Self {
        Self::from_raw(a + Self::KIND.offset())
    }
    fn amp(self) -> i128 {
        self.raw() - Self::KIND.offset()
    }
}

macro_rules! prim_int {
    ($($T:ty, $bits:expr, $signed:expr;)*) => {$(
        impl Fmt for $T {
            const KIND: Kind = Kind::Int { bits: $bits, signed: $signed };
            #[inline] fn to_val(self) -> Val { Val::I(self as i128) }
            #[inline] fn from_val(v: Val) -> Self { match v { Val::I(r) => r as $T, _ => panic!("variant") } }
        }
        impl IntFmt for $T { const BITS: u32 = $bits; const SIGNED: bool = $signed; }
    )*};
}
prim_int! {
    i8, 8, true; i16, 16, true; i32, 32, true; i64, 64, true;
    u8, 8, false; u16, 16, false; u32, 32, false; u64, 64, false;
}

macro_rules! custom_int {
    ($($T:ident, $Rep:ty, $bits:expr, $signed:expr;)*) => {$(
        impl Fmt for $T {
            const KIND: Kind = Kind::Int { bits: $bits, signed: $signed };
            #[inline] fn to_val(self) -> Val { Val::I(self.inner() as i128) }
            #[inline] fn from_val(v: Val) -> Self { match v { Val::I(r) => $T::new_unchecked(r as $Rep), _ => panic!("variant") } }
        }
        impl IntFmt for $T { const BITS: u32 = $bits; const SIGNED: bool = $signed; }
    )*};
}
custom_int! {
    I24, i32, 24, true; I48, i64, 48, true; U24, i32, 24, false; U48, i64, 48, false;
}

impl Fmt for f32 {
    const KIND: Kind = Kind::F32;
    fn to_val(self) -> Val {
        Val::F32(self)
    }
    fn from_val(v: Val) -> Self {
        match v {
            Val::F32(x) => x,
            _ => panic!("variant"),
        }
    }
}
impl Fmt for f64 {
    const KIND: Kind = Kind::F64;
    fn to_val(self) -> Val {
        Val::F64(self)
    }
    fn from_val(v: Val) -> Self {
        match v {
            Val::F64(x) => x,
            _ => panic!("variant"),
        }
    }
}

pub const INT_KINDS: [Kind; 12] = [
    Kind::Int { bits: 8, signed: true },
    Kind::Int { bits: 16, signed: true },
    Kind::Int { bits: 24, signed: true },
    Kind::Int { bits: 32, signed: true },
    Kind::Int { bits: 48, signed: true },
    Kind::Int { bits: 64, signed: true },
    Kind::Int { bits: 8, signed: false },
    Kind::Int { bits: 16, signed: false },
    Kind::Int { bits: 24, signed: false },
    Kind::Int { bits: 32, signed: false },
    Kind::Int { bits: 48, signed: false },
    Kind::Int { bits: 64, signed: false },
];

/// Invoke `$m!(Type)` for each of the 12 integer formats.
#[macro_export]
macro_rules! for_int_formats {
    ($m:ident) => {
        $m!(i8); $m!(i16); $m!(I24); $m!(i32); $m!(I48); $m!(i64);
        $m!(u8); $m!(u16); $m!(U24); $m!(u32); $m!(U48); $m!(u64);
    };
}

/// Boundary-structured raw values of an integer format: MIN..MIN+3, eq-3..eq+3, MAX-3..MAX,
/// and +-2^k +- {0,1} around equilibrium.
pub fn boundary_raws(k: Kind) -> Vec<i128> {
    let mut v = Vec::new();
    let (lo, hi, eq) = (k.min_raw(), k.max_raw(), k.eq_raw());
    for d in 0..4 {
        v.push(lo + d);
        v.push(hi - d);
        v.push(eq + d);
        v.push(eq - d);
    }
    for b in 0..(k.bits() - 1) {
        for s in [-1i128, 1] {
            for d in [-1i128, 0, 1] {
                let r = eq + s * (1i128 << b) + d;
                if k.in_range_raw(r) {
                    v.push(r);
                }
            }
        }
    }
    v.sort();
    v.dedup();
    v.retain(|&r| k.in_range_raw(r));
    v
}
