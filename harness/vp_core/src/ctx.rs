//! The runner: three ways of producing cases (proptest strategies, sequential / parallel
//! bounded-exhaustive enumeration, hand-written bulk loops), one way of judging them (a check
//! closure returning `Result<(), String>`), plus evidence, replay and known-finding handling.

use crate::pan;
use proptest::strategy::Strategy;
use proptest::test_runner::{Config, RngSeed, TestCaseError, TestError, TestRunner};
use rayon::prelude::*;
use serde::de::DeserializeOwned;
use serde::Serialize;
use serde_json::{json, Map, Value};
use std::cell::{Cell, RefCell};
use std::collections::{BTreeMap, HashSet};
use std::hash::{Hash, Hasher};
use std::path::{Path, PathBuf};
use std::time::Instant;

pub type CheckResult = Result<(), String>;

/// Per-case statistics filled in by a check.
#[derive(Default)]
pub struct Stats {
    /// the case satisfies the property's non-trivial rule
    pub nontrivial: bool,
    /// class labels (measured distribution of the generator)
    pub classes: Vec<&'static str>,
    /// number of library evaluations inside this case beyond the first (optional)
    pub extra_evals: u64,
    /// cases excluded by construction because they match an open known finding
    pub excluded_known: u64,
}

impl Stats {
    pub fn class(&mut self, c: &'static str) {
        if !self.classes.contains(&c) {
            self.classes.push(c);
        }
    }
    pub fn class_if(&mut self, cond: bool, c: &'static str) {
        if cond {
            self.class(c)
        }
    }
    pub fn nt(&mut self, cond: bool) {
        if cond {
            self.nontrivial = true;
        }
    }
}

/// Result of a hand-written bulk (usually exhaustive, parallel) loop.
#[derive(Default, Clone)]
pub struct Bulk {
    pub evals: u64,
    pub nontrivial: u64,
    pub classes: BTreeMap<&'static str, u64>,
    /// first failure in enumeration order: (case, message)
    pub fail: Option<(Value, String)>,
    pub samples: Vec<Value>,
}

impl Bulk {
    /// order-preserving merge (left operand enumerated before right operand)
    pub fn merge(mut self, other: Bulk) -> Bulk {
        self.evals += other.evals;
        self.nontrivial += other.nontrivial;
        for (k, v) in other.classes {
            *self.classes.entry(k).or_insert(0) += v;
        }
        if self.fail.is_none() {
            self.fail = other.fail;
        }
        if self.samples.len() < 4 {
            self.samples.extend(other.samples.into_iter().take(2));
        }
        self
    }
    pub fn class(&mut self, c: &'static str, n: u64) {
        *self.classes.entry(c).or_insert(0) += n;
    }
    pub fn set_fail(&mut self, case: Value, msg: String) {
        if self.fail.is_none() {
            self.fail = Some((case, msg));
        }
    }
}

#[derive(Clone, Debug)]
pub struct KnownFinding {
    pub property: String,
    pub status: String,
    pub id: String,
    pub what: String,
}

pub struct Ctx {
    pub id: String,
    pub tier: String,
    pub seed: u64,
    pub part: String,
    out: PathBuf,
    verif_dir: PathBuf,
    replay: Option<(PathBuf, String, Value)>,
    replay_matched: bool,
    stored: BTreeMap<String, Vec<(String, Value)>>,
    start: Instant,
    evaluations: u64,
    nontrivial_bulk: u64,
    nt_hashes: HashSet<u64>,
    classes: BTreeMap<String, u64>,
    breakdown: BTreeMap<String, u64>,
    samples: Vec<Value>,
    sample_budget_per_sub: usize,
    violations: Vec<(String, PathBuf, String)>,
    inconclusive: Vec<String>,
    known_file: Vec<KnownFinding>,
    known_hit: Vec<String>,
    excluded_known: u64,
    required: Vec<String>,
    assumptions: Vec<String>,
    rule: String,
    explanation: Vec<String>,
    exhaustive_subs: Vec<String>,
    any_non_exhaustive: bool,
    replayed: u64,
    extra: Map<String, Value>,
}

fn hash64<T: Hash>(t: &T) -> u64 {
    let mut h = std::collections::hash_map::DefaultHasher::new();
    t.hash(&mut h);
    h.finish()
}

fn hash_value(sub: &str, v: &Value) -> u64 {
    let s = serde_json::to_string(v).unwrap_or_default();
    hash64(&(sub, s))
}

impl Ctx {
    /// Parse `--prop ID --tier T --seed N --out FILE [--part NAME] [--replay FILE]`.
    pub fn from_args() -> Ctx {
        pan::install_hook();
        let args: Vec<String> = std::env::args().collect();
        let get = |name: &str| -> Option<String> {
            args.iter()
                .position(|a| a == name)
                .and_then(|i| args.get(i + 1).cloned())
        };
        let id = get("--prop").expect("--prop");
        let tier = get("--tier").unwrap_or_else(|| "quick".into());
        let seed = get("--seed")
            .or_else(|| std::env::var("VERIF_SEED").ok())
            .and_then(|s| s.parse::<i128>().ok())
            .map(|s| s as u64)
            .unwrap_or(1);
        let verif_dir = PathBuf::from(get("--verif").unwrap_or_else(|| "/verif".into()));
        let part = get("--part").unwrap_or_default();
        let out = get("--out")
            .map(PathBuf::from)
            .unwrap_or_else(|| verif_dir.join("evidence").join(format!("{}.json", id)));
        let replay = get("--replay").map(|p| {
            let txt = std::fs::read_to_string(&p).unwrap_or_else(|e| {
                eprintln!("cannot read replay file {}: {}", p, e);
                std::process::exit(2)
            });
            let v: Value = serde_json::from_str(&txt).unwrap_or_else(|e| {
                eprintln!("cannot parse replay file {}: {}", p, e);
                std::process::exit(2)
            });
            let sub = v["sub"].as_str().unwrap_or("").to_string();
            (PathBuf::from(p), sub, v["case"].clone())
        });
        let mut ctx = Ctx {
            id: id.clone(),
            tier,
            seed,
            part,
            out,
            verif_dir: verif_dir.clone(),
            replay,
            replay_matched: false,
            stored: BTreeMap::new(),
            start: Instant::now(),
            evaluations: 0,
            nontrivial_bulk: 0,
            nt_hashes: HashSet::new(),
            classes: BTreeMap::new(),
            breakdown: BTreeMap::new(),
            samples: Vec::new(),
            sample_budget_per_sub: 2,
            violations: Vec::new(),
            inconclusive: Vec::new(),
            known_file: Vec::new(),
            known_hit: Vec::new(),
            excluded_known: 0,
            required: Vec::new(),
            assumptions: Vec::new(),
            rule: String::new(),
            explanation: Vec::new(),
            exhaustive_subs: Vec::new(),
            any_non_exhaustive: false,
            replayed: 0,
            extra: Map::new(),
        };
        pan::set_identity(&ctx.id, ctx.verif_dir.clone(), &ctx.tier, ctx.seed);
        ctx.load_known();
        if ctx.replay.is_none() {
            ctx.load_stored();
        }
        ctx
    }

    pub fn thorough(&self) -> bool {
        self.tier == "thorough"
    }
    /// pick by tier
    pub fn pick<T>(&self, quick: T, thorough: T) -> T {
        if self.thorough() {
            thorough
        } else {
            quick
        }
    }
    pub fn replaying(&self) -> bool {
        self.replay.is_some()
    }

    fn load_known(&mut self) {
        let p = self.verif_dir.join("known_findings.json");
        if let Ok(txt) = std::fs::read_to_string(&p) {
            match serde_json::from_str::<Value>(&txt) {
                Ok(v) => {
                    for e in v["findings"].as_array().cloned().unwrap_or_default() {
                        self.known_file.push(KnownFinding {
                            property: e["property"].as_str().unwrap_or("").into(),
                            status: e["status"].as_str().unwrap_or("").into(),
                            id: e["id"].as_str().unwrap_or("").into(),
                            what: e["what"].as_str().unwrap_or("").into(),
                        });
                    }
                }
                Err(e) => self.inconclusive.push(format!("known_findings.json unreadable: {}", e)),
            }
        }
    }

    fn load_stored(&mut self) {
        let dir = self.verif_dir.join("replays").join(&self.id);
        let mut files: Vec<PathBuf> = match std::fs::read_dir(&dir) {
            Ok(rd) => rd.filter_map(|e| e.ok().map(|e| e.path())).collect(),
            Err(_) => return,
        };
        files.sort();
        for f in files {
            if f.extension().and_then(|e| e.to_str()) != Some("json") {
                continue;
            }
            let parsed = std::fs::read_to_string(&f)
                .ok()
                .and_then(|t| serde_json::from_str::<Value>(&t).ok());
            match parsed {
                Some(v) => {
                    let sub = v["sub"].as_str().unwrap_or("").to_string();
                    self.stored
                        .entry(sub)
                        .or_default()
                        .push((f.display().to_string(), v["case"].clone()));
                }
                None => self
                    .inconclusive
                    .push(format!("stored replay {} unreadable", f.display())),
            }
        }
    }

    /// Is there an *open* known finding with this id for this property?
    pub fn known_open(&self, finding_id: &str) -> bool {
        self.known_file
            .iter()
            .any(|k| k.property == self.id && k.id == finding_id && k.status == "open")
    }

    pub fn set_rule(&mut self, rule: &str) {
        self.rule = rule.to_string();
    }
    pub fn assume(&mut self, a: &str) {
        self.assumptions.push(a.to_string());
    }
    pub fn explain(&mut self, e: &str) {
        self.explanation.push(e.to_string());
    }
    pub fn require_class(&mut self, c: &str) {
        self.required.push(c.to_string());
    }
    pub fn extra(&mut self, key: &str, v: Value) {
        self.extra.insert(key.to_string(), v);
    }
    pub fn inconclusive(&mut self, why: &str) {
        self.inconclusive.push(why.to_string());
    }
    pub fn count_class(&mut self, c: &str, n: u64) {
        *self.classes.entry(c.to_string()).or_insert(0) += n;
    }

    /// Seed for a sub-check: a pure function of (VERIF_SEED, property id, sub-check name).
    pub fn sub_seed(&self, sub: &str) -> u64 {
        hash64(&(self.seed, self.id.as_str(), sub))
    }

    fn want(&self, sub: &str) -> bool {
        match &self.replay {
            None => true,
            Some((_, s, _)) => s == sub,
        }
    }

    fn record_violation(&mut self, sub: &str, case: &Value, msg: &str) {
        let path = if let Some((p, _, _)) = &self.replay {
            p.clone()
        } else {
            let dir = self.verif_dir.join("replays").join("new");
            let _ = std::fs::create_dir_all(&dir);
            let h = hash_value(sub, case);
            let p = dir.join(format!("{}-{}-{:016x}.json", self.id, sub.replace('/', "_"), h));
            let doc = json!({"property": self.id, "sub": sub, "case": case, "message": msg,
                             "tier": self.tier, "seed": self.seed, "part": self.part});
            let _ = std::fs::write(&p, serde_json::to_string_pretty(&doc).unwrap());
            p
        };
        println!("VIOLATION property={} replay={}", self.id, path.display());
        println!("  sub-check: {}", sub);
        let m: String = msg.chars().take(2000).collect();
        println!("  message:   {}", m);
        let c = serde_json::to_string(case).unwrap_or_default();
        let c: String = c.chars().take(1500).collect();
        println!("  case:      {}", c);
        self.violations.push((sub.to_string(), path, msg.to_string()));
    }

    /// A failure that matches an open known finding: printed, counted, never a violation.
    pub fn known_finding(&mut self, finding_id: &str, what: &str) {
        let line = format!("KNOWN-FINDING: property={} {} {}", self.id, finding_id, what);
        if !self.known_hit.contains(&line) {
            println!("{}", line);
            self.known_hit.push(line);
        }
    }

    fn commit_stats(&mut self, sub: &str, case_hash: impl FnOnce() -> u64, st: &Stats) {
        self.evaluations += 1 + st.extra_evals;
        *self.breakdown.entry(sub.to_string()).or_insert(0) += 1 + st.extra_evals;
        self.excluded_known += st.excluded_known;
        for c in &st.classes {
            *self.classes.entry((*c).to_string()).or_insert(0) += 1;
        }
        if st.nontrivial {
            self.nt_hashes.insert(case_hash());
        }
    }

    fn maybe_sample(&mut self, sub: &str, idx: u64, nontrivial: bool, mk: impl FnOnce() -> Value) {
        // deterministic choice: first non-trivial cases of each sub-check, plus power-of-8 indices
        let have = self
            .samples
            .iter()
            .filter(|s| s["sub"].as_str() == Some(sub))
            .count();
        let take = (nontrivial && have < self.sample_budget_per_sub)
            || (idx >= 8 && idx.is_power_of_two() && idx.trailing_zeros() % 3 == 0 && have < self.sample_budget_per_sub + 2);
        if take && self.samples.len() < 40 {
            let mut v = mk();
            // keep samples readable
            let s = serde_json::to_string(&v).unwrap_or_default();
            if s.len() > 1200 {
                v = Value::String(format!("{}… ({} bytes)", &s.chars().take(1200).collect::<String>(), s.len()));
            }
            self.samples.push(json!({"sub": sub, "case": v}));
        }
    }

    fn run_stored<T: DeserializeOwned + Serialize>(
        &mut self,
        sub: &str,
        check: &dyn Fn(&T, &mut Stats) -> CheckResult,
    ) {
        let stored = self.stored.get(sub).cloned().unwrap_or_default();
        for (file, case) in stored {
            match serde_json::from_value::<T>(case.clone()) {
                Err(e) => self
                    .inconclusive
                    .push(format!("stored replay {} does not deserialize: {}", file, e)),
                Ok(t) => {
                    let mut st = Stats::default();
                    let r = pan::with_case(sub, &|| case.clone(), || pan::catch(|| check(&t, &mut st)))
                        .unwrap_or_else(|p| Err(format!("panic: {}", p)));
                    self.replayed += 1;
                    match r {
                        Ok(()) => {
                            st.classes.push("replayed-regression");
                            self.commit_stats(sub, || hash_value(sub, &case), &st);
                        }
                        Err(m) => {
                            let m = format!("stored regression {} fails again: {}", file, m);
                            self.record_violation(sub, &case, &m);
                        }
                    }
                }
            }
        }
    }

    fn run_replay<T: DeserializeOwned>(
        &mut self,
        sub: &str,
        check: &dyn Fn(&T, &mut Stats) -> CheckResult,
    ) {
        let (_, _, case) = self.replay.clone().unwrap();
        self.replay_matched = true;
        match serde_json::from_value::<T>(case.clone()) {
            Err(e) => self.inconclusive.push(format!("replay case does not deserialize: {}", e)),
            Ok(t) => {
                let mut st = Stats::default();
                let r = pan::with_case(sub, &|| case.clone(), || pan::catch(|| check(&t, &mut st)))
                    .unwrap_or_else(|p| Err(format!("panic: {}", p)));
                self.evaluations += 1;
                match r {
                    Ok(()) => println!("REPLAY-PASS property={} sub={}", self.id, sub),
                    Err(m) => self.record_violation(sub, &case, &m),
                }
            }
        }
    }

    /// Engine P: `cases` proptest-generated cases, fixed seed, shrinking on failure.
    pub fn prop<T, S>(
        &mut self,
        sub: &str,
        cases: u32,
        strategy: S,
        check: impl Fn(&T, &mut Stats) -> CheckResult,
    ) where
        T: Serialize + DeserializeOwned + std::fmt::Debug,
        S: Strategy<Value = T>,
    {
        if !self.want(sub) {
            return;
        }
        if self.replaying() {
            return self.run_replay::<T>(sub, &check);
        }
        self.run_stored::<T>(sub, &check);
        self.any_non_exhaustive = true;
        let config = Config {
            cases,
            failure_persistence: None,
            rng_seed: RngSeed::Fixed(self.sub_seed(sub)),
            max_shrink_iters: 20_000,
            max_global_rejects: 1 << 20,
            ..Config::default()
        };
        let mut runner = TestRunner::new(config);
        let failed = Cell::new(false);
        let this = RefCell::new(&mut *self);
        let idx = Cell::new(0u64);
        let result = runner.run(&strategy, |t| {
            let mut st = Stats::default();
            let r = pan::with_case(sub, &|| serde_json::to_value(&t).unwrap_or(Value::Null), || pan::catch(|| check(&t, &mut st)))
                .unwrap_or_else(|p| Err(format!("panic: {}", p)));
            match r {
                Ok(()) => {
                    if !failed.get() {
                        let mut me = this.borrow_mut();
                        let i = idx.get();
                        idx.set(i + 1);
                        let tv = RefCell::new(None::<Value>);
                        let val = || {
                            if tv.borrow().is_none() {
                                *tv.borrow_mut() = Some(serde_json::to_value(&t).unwrap_or(Value::Null));
                            }
                            tv.borrow().clone().unwrap()
                        };
                        me.commit_stats(sub, || hash_value(sub, &val()), &st);
                        me.maybe_sample(sub, i, st.nontrivial, || val());
                    }
                    Ok(())
                }
                Err(m) => {
                    failed.set(true);
                    Err(TestCaseError::fail(m))
                }
            }
        });
        drop(this);
        match result {
            Ok(()) => {}
            Err(TestError::Fail(reason, t)) => {
                let case = serde_json::to_value(&t).unwrap_or(Value::Null);
                self.record_violation(sub, &case, &reason.message().to_string());
            }
            Err(TestError::Abort(reason)) => {
                self.inconclusive
                    .push(format!("{}: proptest aborted: {}", sub, reason.message()));
            }
        }
    }

    /// Engine E (sequential): every case of `iter`, smallest-first; stops at the first failure,
    /// which is therefore the minimal one in enumeration order.
    pub fn enumerate<T>(
        &mut self,
        sub: &str,
        exhaustive: bool,
        iter: impl Iterator<Item = T>,
        check: impl Fn(&T, &mut Stats) -> CheckResult,
    ) where
        T: Serialize + DeserializeOwned,
    {
        if !self.want(sub) {
            return;
        }
        if self.replaying() {
            return self.run_replay::<T>(sub, &check);
        }
        self.run_stored::<T>(sub, &check);
        let mut i = 0u64;
        let mut ok = true;
        for t in iter {
            let mut st = Stats::default();
            let r = pan::with_case(sub, &|| serde_json::to_value(&t).unwrap_or(Value::Null), || pan::catch(|| check(&t, &mut st)))
                .unwrap_or_else(|p| Err(format!("panic: {}", p)));
            match r {
                Ok(()) => {
                    // distinct by construction: hash (sub, index)
                    self.commit_stats(sub, || hash64(&(sub, i)), &st);
                    self.maybe_sample(sub, i, st.nontrivial, || serde_json::to_value(&t).unwrap_or(Value::Null));
                }
                Err(m) => {
                    let case = serde_json::to_value(&t).unwrap_or(Value::Null);
                    self.record_violation(sub, &case, &m);
                    ok = false;
                    break;
                }
            }
            i += 1;
        }
        if exhaustive && ok {
            self.exhaustive_subs.push(sub.to_string());
        } else {
            self.any_non_exhaustive = true;
        }
    }

    /// Engine E (parallel): cases `make(0..n)`; the reported failure is the one with the
    /// smallest index.
    pub fn par_enumerate<T>(
        &mut self,
        sub: &str,
        exhaustive: bool,
        n: u64,
        make: impl Fn(u64) -> T + Sync,
        check: impl Fn(&T, &mut Stats) -> CheckResult + Sync,
    ) where
        T: Serialize + DeserializeOwned + Send,
    {
        if !self.want(sub) {
            return;
        }
        if self.replaying() {
            return self.run_replay::<T>(sub, &check);
        }
        self.run_stored::<T>(sub, &check);
        #[derive(Default)]
        struct Acc {
            evals: u64,
            nt: u64,
            excluded: u64,
            classes: BTreeMap<&'static str, u64>,
            fail: Option<(u64, String)>,
            samples: Vec<(u64, bool)>,
        }
        let chunk = 256u64;
        let nchunks = n.div_ceil(chunk);
        let acc = (0..nchunks)
            .into_par_iter()
            .map(|c| {
                let mut a = Acc::default();
                for i in (c * chunk)..((c + 1) * chunk).min(n) {
                    let t = make(i);
                    let mut st = Stats::default();
                    let r = pan::with_case(sub, &|| serde_json::to_value(&t).unwrap_or(Value::Null), || pan::catch(|| check(&t, &mut st)))
                        .unwrap_or_else(|p| Err(format!("panic: {}", p)));
                    match r {
                        Ok(()) => {
                            a.evals += 1 + st.extra_evals;
                            a.excluded += st.excluded_known;
                            if st.nontrivial {
                                a.nt += 1;
                                if a.samples.len() < 1 {
                                    a.samples.push((i, true));
                                }
                            }
                            for c in st.classes {
                                *a.classes.entry(c).or_insert(0) += 1;
                            }
                        }
                        Err(m) => {
                            a.fail = Some((i, m));
                            break;
                        }
                    }
                }
                a
            })
            .reduce(Acc::default, |mut l, r| {
                l.evals += r.evals;
                l.nt += r.nt;
                l.excluded += r.excluded;
                for (k, v) in r.classes {
                    *l.classes.entry(k).or_insert(0) += v;
                }
                if l.fail.is_none() {
                    l.fail = r.fail;
                }
                if l.samples.len() < 3 {
                    l.samples.extend(r.samples);
                }
                l
            });
        self.evaluations += acc.evals;
        *self.breakdown.entry(sub.to_string()).or_insert(0) += acc.evals;
        self.nontrivial_bulk += acc.nt;
        self.excluded_known += acc.excluded;
        for (k, v) in acc.classes {
            *self.classes.entry(k.to_string()).or_insert(0) += v;
        }
        for (i, _) in acc.samples.iter().take(3) {
            let t = make(*i);
            self.maybe_sample(sub, 0, true, || serde_json::to_value(&t).unwrap_or(Value::Null));
        }
        match acc.fail {
            Some((i, m)) => {
                let case = serde_json::to_value(&make(i)).unwrap_or(Value::Null);
                self.record_violation(sub, &case, &m);
                self.any_non_exhaustive = true;
            }
            None => {
                if exhaustive {
                    self.exhaustive_subs.push(sub.to_string());
                } else {
                    self.any_non_exhaustive = true;
                }
            }
        }
    }

    /// Hand-written bulk loop.  `replay` re-checks one serialized case; `run` does the bulk work
    /// (skipped when replaying).
    pub fn bulk(
        &mut self,
        sub: &str,
        exhaustive: bool,
        replay: impl Fn(&Value, &mut Stats) -> CheckResult,
        run: impl FnOnce() -> Bulk,
    ) {
        if !self.want(sub) {
            return;
        }
        if self.replaying() {
            return self.run_replay::<Value>(sub, &replay);
        }
        self.run_stored::<Value>(sub, &replay);
        let b = run();
        self.evaluations += b.evals;
        *self.breakdown.entry(sub.to_string()).or_insert(0) += b.evals;
        self.nontrivial_bulk += b.nontrivial;
        for (k, v) in b.classes {
            *self.classes.entry(k.to_string()).or_insert(0) += v;
        }
        for s in b.samples.into_iter().take(3) {
            self.maybe_sample(sub, 0, true, || s);
        }
        match b.fail {
            Some((case, m)) => {
                self.record_violation(sub, &case, &m);
                self.any_non_exhaustive = true;
            }
            None => {
                if exhaustive {
                    self.exhaustive_subs.push(sub.to_string());
                } else {
                    self.any_non_exhaustive = true;
                }
            }
        }
    }

    /// A harness self-test; failure makes the run inconclusive (exit 2), never a violation.
    pub fn self_test(&mut self, name: &str, r: Result<(), String>) {
        if let Err(e) = r {
            self.inconclusive.push(format!("self-test {} failed: {}", name, e));
        }
    }

    /// Write the evidence file and return the process exit code.
    pub fn finish(mut self) -> i32 {
        if self.replaying() {
            if !self.replay_matched {
                eprintln!("replay: no sub-check named {:?} in this binary", self.replay.as_ref().unwrap().1);
                return 3; // "not mine" — the driver tries the next binary
            }
            if !self.violations.is_empty() {
                return 1;
            }
            if !self.inconclusive.is_empty() {
                for i in &self.inconclusive {
                    eprintln!("INCONCLUSIVE: {}", i);
                }
                return 2;
            }
            return 0;
        }
        for r in self.required.clone() {
            if self.classes.get(&r).copied().unwrap_or(0) == 0 {
                self.inconclusive
                    .push(format!("required case class '{}' was never generated (generator defect)", r));
            }
        }
        let distinct_nt = self.nt_hashes.len() as u64 + self.nontrivial_bulk;
        let exhaustive = !self.exhaustive_subs.is_empty() && !self.any_non_exhaustive && self.violations.is_empty();
        let mut explanation = self.explanation.join(" ");
        if !self.exhaustive_subs.is_empty() {
            explanation.push_str(&format!(
                " Sub-domains enumerated completely in this run: {}.",
                self.exhaustive_subs.join(", ")
            ));
        }
        if self.samples.is_empty() {
            self.samples.push(json!({"note": "no sample recorded"}));
        }
        let mut coverage = Map::new();
        coverage.insert("evaluations".into(), json!(self.evaluations));
        coverage.insert("distinct_nontrivial".into(), json!(distinct_nt));
        coverage.insert("rule".into(), json!(self.rule));
        coverage.insert("samples".into(), Value::Array(self.samples.clone()));
        coverage.insert("classes".into(), json!(self.classes));
        coverage.insert("breakdown".into(), json!(self.breakdown));
        coverage.insert("exhaustive".into(), json!(exhaustive));
        coverage.insert("exhaustive_subdomains".into(), json!(self.exhaustive_subs));
        coverage.insert("explanation".into(), json!(explanation.trim()));
        coverage.insert("excluded_known_finding_cases".into(), json!(self.excluded_known));
        coverage.insert("regressions_replayed".into(), json!(self.replayed));
        for (k, v) in std::mem::take(&mut self.extra) {
            coverage.insert(k, v);
        }
        let ev = json!({
            "property_id": self.id,
            "tier": self.tier,
            "seed": self.seed,
            "level": "exploration",
            "part": self.part,
            "coverage": Value::Object(coverage),
            "assumptions": self.assumptions,
            "wall_s": self.start.elapsed().as_secs_f64(),
            "violations": self.violations.len(),
            "violation_replays": self.violations.iter().map(|(s, p, _)| json!({"sub": s, "replay": p.display().to_string()})).collect::<Vec<_>>(),
            "known_findings": self.known_hit,
            "inconclusive": self.inconclusive,
        });
        if let Some(dir) = Path::new(&self.out).parent() {
            let _ = std::fs::create_dir_all(dir);
        }
        if let Err(e) = std::fs::write(&self.out, serde_json::to_string_pretty(&ev).unwrap()) {
            eprintln!("cannot write evidence {}: {}", self.out.display(), e);
            return 2;
        }
        println!(
            "[{}{}] tier={} seed={} evaluations={} distinct_nontrivial={} violations={} wall={:.1}s",
            self.id,
            if self.part.is_empty() { String::new() } else { format!("/{}", self.part) },
            self.tier,
            self.seed,
            self.evaluations,
            distinct_nt,
            self.violations.len(),
            self.start.elapsed().as_secs_f64()
        );
        if !self.violations.is_empty() {
            return 1;
        }
        if !self.inconclusive.is_empty() {
            for i in &self.inconclusive {
                println!("INCONCLUSIVE: {}", i);
            }
            return 2;
        }
        0
    }
}
