//! Soft-float reference (DESIGN §3.2): IEEE-754 binary32/binary64 round-to-nearest-even on
//! integer significands.  Trusted primitives: integer ops and `to_bits`/`from_bits` only.

#[derive(Clone, Copy, Debug, PartialEq, Eq)]
pub struct FloatSpec {
    /// precision in bits including the hidden one (24 / 53)
    pub p: u32,
    pub bias: i32,
    pub total_bits: u32,
}

pub const F32: FloatSpec = FloatSpec { p: 24, bias: 127, total_bits: 32 };
pub const F64: FloatSpec = FloatSpec { p: 53, bias: 1023, total_bits: 64 };

/// Correctly rounded (nearest-even) encoding of `(-1)^neg * mag * 2^exp2`.  Returns the bit
/// pattern (in the low `total_bits` bits).  Overflow gives infinity, underflow gives
/// subnormals / signed zero.
pub fn round_to_bits(neg: bool, mag: u128, exp2: i32, spec: FloatSpec) -> u64 {
    let sign_bit = (neg as u64) << (spec.total_bits - 1);
    if mag == 0 {
        return sign_bit;
    }
    let p = spec.p as i32;
    let emin = 1 - spec.bias;
    let nbits = 128 - mag.leading_zeros() as i32;
    // value in [2^e, 2^(e+1))
    let e = nbits - 1 + exp2;
    let normal = e >= emin;
    // exponent of one unit in the last place of the result
    let q = if normal { e - (p - 1) } else { emin - (p - 1) };
    // sig = round_nearest_even(mag * 2^(exp2 - q))
    let sh = exp2 - q;
    let sig: u128 = if sh >= 0 {
        // exact: result has at most p bits
        mag << sh
    } else {
        let s = (-sh) as u32;
        if s >= 128 {
            0
        } else {
            let fl = mag >> s;
            let rem = mag & ((1u128 << s) - 1);
            let half = 1u128 << (s - 1);
            if rem > half || (rem == half && (fl & 1) == 1) {
                fl + 1
            } else {
                fl
            }
        }
    };
    let be: i64 = if normal { (e + spec.bias - 1) as i64 } else { 0 };
    let bits = ((be as u128) << (p - 1)) + sig;
    let exp_field = (bits >> (p - 1)) as i64;
    let max_field = (2 * spec.bias + 1) as i64;
    if exp_field >= max_field {
        // infinity
        return sign_bit | ((max_field as u64) << (p - 1));
    }
    sign_bit | bits as u64
}

pub fn round_i128_to_f32(num: i128, exp2: i32) -> f32 {
    f32::from_bits(round_to_bits(num < 0, num.unsigned_abs(), exp2, F32) as u32)
}

pub fn round_i128_to_f64(num: i128, exp2: i32) -> f64 {
    f64::from_bits(round_to_bits(num < 0, num.unsigned_abs(), exp2, F64))
}

/// Exact decomposition of a finite float: value = (-1)^neg * mant * 2^exp.
#[derive(Clone, Copy, Debug, PartialEq, Eq)]
pub struct Dec {
    pub neg: bool,
    pub mant: u64,
    pub exp: i32,
}

pub fn dec_f32(x: f32) -> Option<Dec> {
    let b = x.to_bits();
    let neg = b >> 31 == 1;
    let ef = ((b >> 23) & 0xff) as i32;
    let m = (b & 0x7f_ffff) as u64;
    if ef == 0xff {
        return None;
    }
    if ef == 0 {
        Some(Dec { neg, mant: m, exp: -126 - 23 })
    } else {
        Some(Dec { neg, mant: m | (1 << 23), exp: ef - 127 - 23 })
    }
}

pub fn dec_f64(x: f64) -> Option<Dec> {
    let b = x.to_bits();
    let neg = b >> 63 == 1;
    let ef = ((b >> 52) & 0x7ff) as i32;
    let m = b & 0xf_ffff_ffff_ffff;
    if ef == 0x7ff {
        return None;
    }
    if ef == 0 {
        Some(Dec { neg, mant: m, exp: -1022 - 52 })
    } else {
        Some(Dec { neg, mant: m | (1 << 52), exp: ef - 1023 - 52 })
    }
}

/// trunc_toward_zero(x * 2^k) as an exact integer, `None` if it does not fit in i128.
pub fn trunc_scaled(d: Dec, k: i32) -> Option<i128> {
    if d.mant == 0 {
        return Some(0);
    }
    let sh = d.exp + k;
    let mag: u128 = if sh >= 0 {
        if sh as u32 + (64 - d.mant.leading_zeros()) > 126 {
            return None;
        }
        (d.mant as u128) << sh
    } else {
        let s = (-sh) as u32;
        if s >= 64 {
            0
        } else {
            (d.mant >> s) as u128
        }
    };
    Some(if d.neg { -(mag as i128) } else { mag as i128 })
}

/// Is `x * 2^k` an integer?
pub fn scaled_is_integer(d: Dec, k: i32) -> bool {
    if d.mant == 0 {
        return true;
    }
    let sh = d.exp + k;
    if sh >= 0 {
        true
    } else {
        let s = (-sh) as u32;
        s < 64 && d.mant & ((1u64 << s) - 1) == 0
    }
}

/// Correctly rounded f64 -> f32.
pub fn f64_to_f32_ref(x: f64) -> f32 {
    match dec_f64(x) {
        None => {
            if x.is_nan() {
                f32::NAN
            } else if x > 0.0 {
                f32::INFINITY
            } else {
                f32::NEG_INFINITY
            }
        }
        Some(d) => f32::from_bits(round_to_bits(d.neg, d.mant as u128, d.exp, F32) as u32),
    }
}

/// Exact f32 -> f64.
pub fn f32_to_f64_ref(x: f32) -> f64 {
    match dec_f32(x) {
        None => {
            if x.is_nan() {
                f64::NAN
            } else if x > 0.0 {
                f64::INFINITY
            } else {
                f64::NEG_INFINITY
            }
        }
        Some(d) => f64::from_bits(round_to_bits(d.neg, d.mant as u128, d.exp, F64)),
    }
}

/// Exact rational comparison helper: an f64 as (neg, mant, exp).
pub fn exact_f64(x: f64) -> Dec {
    dec_f64(x).expect("finite")
}

/// Self-test against the hardware (`as` casts) on a deterministic pseudo-random set; a failure
/// here is a harness defect (exit 2), not a violation.
pub fn self_test() -> Result<(), String> {
    let mut s: u64 = 0x9e37_79b9_7f4a_7c15;
    let mut next = || {
        s ^= s << 13;
        s ^= s >> 7;
        s ^= s << 17;
        s
    };
    for i in 0..(1u32 << 18) {
        let r = next();
        // integers of assorted widths
        let w = (r % 64) as u32;
        let v = (next() as i64) >> w;
        let a = round_i128_to_f32(v as i128, 0);
        if a.to_bits() != (v as f32).to_bits() {
            return Err(format!("softfloat i64->f32 mismatch for {}", v));
        }
        let b = round_i128_to_f64(v as i128, 0);
        if b.to_bits() != (v as f64).to_bits() {
            return Err(format!("softfloat i64->f64 mismatch for {}", v));
        }
        // f64 -> f32, all exponent ranges
        let x = f64::from_bits(next());
        if x.is_finite() {
            let got = f64_to_f32_ref(x);
            if got.to_bits() != (x as f32).to_bits() {
                return Err(format!("softfloat f64->f32 mismatch for {:e}", x));
            }
        }
        // f64 near the f32 range
        let y = (f32::from_bits(next() as u32) as f64) * (1.0 + (i as f64) * 1e-12);
        if y.is_finite() {
            let got = f64_to_f32_ref(y);
            if got.to_bits() != (y as f32).to_bits() {
                return Err(format!("softfloat f64->f32 mismatch for {:e}", y));
            }
        }
        let z = f32::from_bits(next() as u32);
        if z.is_finite() {
            if f32_to_f64_ref(z).to_bits() != (z as f64).to_bits() {
                return Err(format!("softfloat f32->f64 mismatch for {:e}", z));
            }
            // trunc_scaled vs `as` for in-range values
            if z.abs() < 1.0 {
                let t = trunc_scaled(dec_f32(z).unwrap(), 31).unwrap();
                if t != ((z as f64) * 2147483648.0) as i64 as i128 {
                    return Err(format!("trunc_scaled mismatch for {:e}", z));
                }
            }
        }
    }
    Ok(())
}
