//! Counting global allocator (DESIGN §3.6).
//!
//! Counts alloc / realloc / dealloc calls and live bytes **only on the calling thread and only
//! while that thread's ARMED flag is set**, so rayon workers, proptest and evidence bookkeeping
//! never pollute a measurement.

use std::alloc::{GlobalAlloc, Layout, System};
use std::cell::Cell;

pub struct Counting;

thread_local! {
    static ARMED: Cell<bool> = const { Cell::new(false) };
    static ALLOCS: Cell<u64> = const { Cell::new(0) };
    static REALLOCS: Cell<u64> = const { Cell::new(0) };
    static FREES: Cell<u64> = const { Cell::new(0) };
    static BYTES_IN: Cell<u64> = const { Cell::new(0) };
    static BYTES_OUT: Cell<u64> = const { Cell::new(0) };
}

unsafe impl GlobalAlloc for Counting {
    unsafe fn alloc(&self, layout: Layout) -> *mut u8 {
        if ARMED.with(|a| a.get()) {
            ALLOCS.with(|c| c.set(c.get() + 1));
            BYTES_IN.with(|c| c.set(c.get() + layout.size() as u64));
        }
        System.alloc(layout)
    }
    unsafe fn alloc_zeroed(&self, layout: Layout) -> *mut u8 {
        if ARMED.with(|a| a.get()) {
            ALLOCS.with(|c| c.set(c.get() + 1));
            BYTES_IN.with(|c| c.set(c.get() + layout.size() as u64));
        }
        System.alloc_zeroed(layout)
    }
    unsafe fn dealloc(&self, ptr: *mut u8, layout: Layout) {
        if ARMED.with(|a| a.get()) {
            FREES.with(|c| c.set(c.get() + 1));
            BYTES_OUT.with(|c| c.set(c.get() + layout.size() as u64));
        }
        System.dealloc(ptr, layout)
    }
    unsafe fn realloc(&self, ptr: *mut u8, layout: Layout, new_size: usize) -> *mut u8 {
        if ARMED.with(|a| a.get()) {
            REALLOCS.with(|c| c.set(c.get() + 1));
            BYTES_OUT.with(|c| c.set(c.get() + layout.size() as u64));
            BYTES_IN.with(|c| c.set(c.get() + new_size as u64));
        }
        System.realloc(ptr, layout, new_size)
    }
}

/// Allocator events observed in an armed region.
#[derive(Clone, Copy, Debug, Default, PartialEq, Eq, serde::Serialize)]
pub struct Events {
    pub allocs: u64,
    pub reallocs: u64,
    pub frees: u64,
    pub bytes_in: u64,
    pub bytes_out: u64,
}

impl Events {
    pub fn none(&self) -> bool {
        self.allocs == 0 && self.reallocs == 0 && self.frees == 0
    }
    /// live bytes delta over the region
    pub fn live_delta(&self) -> i64 {
        self.bytes_in as i64 - self.bytes_out as i64
    }
}

/// current per-thread counter values (for nested measurements inside an armed region)
pub fn snapshot_armed() -> Events {
    snapshot()
}

impl Events {
    pub fn since(self, before: Events) -> Events {
        Events {
            allocs: self.allocs - before.allocs,
            reallocs: self.reallocs - before.reallocs,
            frees: self.frees - before.frees,
            bytes_in: self.bytes_in - before.bytes_in,
            bytes_out: self.bytes_out - before.bytes_out,
        }
    }
}

fn snapshot() -> Events {
    Events {
        allocs: ALLOCS.with(|c| c.get()),
        reallocs: REALLOCS.with(|c| c.get()),
        frees: FREES.with(|c| c.get()),
        bytes_in: BYTES_IN.with(|c| c.get()),
        bytes_out: BYTES_OUT.with(|c| c.get()),
    }
}

/// Run `f` with the calling thread's counters armed; return its result and the events seen.
/// `f` must write results into pre-allocated storage if it wants a clean measurement.
/// Re-entrant use is not supported (inner region would disarm the outer one).
pub fn measure<R>(f: impl FnOnce() -> R) -> (R, Events) {
    struct Disarm;
    impl Drop for Disarm {
        fn drop(&mut self) {
            ARMED.with(|a| a.set(false));
        }
    }
    let before = snapshot();
    ARMED.with(|a| a.set(true));
    let guard = Disarm;
    let r = f();
    drop(guard);
    let after = snapshot();
    (
        r,
        Events {
            allocs: after.allocs - before.allocs,
            reallocs: after.reallocs - before.reallocs,
            frees: after.frees - before.frees,
            bytes_in: after.bytes_in - before.bytes_in,
            bytes_out: after.bytes_out - before.bytes_out,
        },
    )
}

/// Self-test: the allocator really sees a Vec allocation and is silent otherwise.
pub fn self_test() -> Result<(), String> {
    let (_, e) = measure(|| {
        let v: Vec<u64> = Vec::with_capacity(17);
        std::hint::black_box(&v);
        drop(v);
    });
    if e.allocs != 1 || e.frees != 1 || e.bytes_in != 17 * 8 || e.live_delta() != 0 {
        return Err(format!("counting allocator self-test: {:?}", e));
    }
    let mut acc = 0u64;
    let (_, e) = measure(|| {
        for i in 0..1000u64 {
            acc = acc.wrapping_add(std::hint::black_box(i));
        }
    });
    std::hint::black_box(acc);
    if !e.none() {
        return Err(format!("counting allocator sees phantom events: {:?}", e));
    }
    Ok(())
}
