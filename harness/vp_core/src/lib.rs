//! vp_core — shared engine of the dasp verification harness.
//!
//! * `ctx`       — runner (proptest / bounded-exhaustive / bulk), case classification,
//!                 evidence, replay, known findings
//! * `fmt`       — format table + exact amplitude arithmetic (DESIGN §3.1)
//! * `softfloat` — soft-float reference (DESIGN §3.2)
//! * `alloc`     — counting global allocator (DESIGN §3.6)
//! * `pan`       — silent panic capture

pub mod alloc;
pub mod ctx;
pub mod fmt;
pub mod iterlaws;
pub mod pan;
pub mod softfloat;

pub use ctx::{Bulk, CheckResult, Ctx, Stats};
pub use serde_json::{json, Value};

#[global_allocator]
static GLOBAL: alloc::Counting = alloc::Counting;

/// `ensure!(cond, "fmt", args..)` — return `Err(String)` from a check.
#[macro_export]
macro_rules! ensure {
    ($cond:expr, $($arg:tt)+) => {
        if !($cond) {
            return Err(format!($($arg)+));
        }
    };
}

/// `ensure_eq!(a, b, "what")`.
#[macro_export]
macro_rules! ensure_eq {
    ($a:expr, $b:expr, $($arg:tt)+) => {{
        let (a, b) = (&$a, &$b);
        if !(*a == *b) {
            return Err(format!("{}: got {:?}, expected {:?}", format!($($arg)+), a, b));
        }
    }};
}

/// `guard!(slow, expr, |panic_message| error_value)`: evaluates `expr` (a `Result`); in the slow pass of
/// `pan::two_pass` a panic inside it becomes `Err(error_value)`.
#[macro_export]
macro_rules! guard {
    ($slow:expr, $e:expr, $conv:expr) => {
        if $slow {
            match $crate::pan::catch(|| $e) {
                Ok(r) => r,
                Err(p) => Err(($conv)(format!("panic: {}", p))),
            }
        } else {
            $e
        }
    };
}
