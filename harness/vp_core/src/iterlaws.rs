//! Iterator laws: whatever an iterator yields through `next()`, positional and consuming adaptors
//! (`nth`, `skip`, `step_by`, `count`, `last`, `size_hint`) must see the same sequence.  The
//! properties speak of "iteration"; an overridden `nth` / `size_hint` / `count` that disagrees with
//! `next()` breaks them just as a wrong `next()` would.

use std::fmt::Debug;

/// `mk` builds a fresh iterator; `reference` is what it must yield (its complete output when
/// `finite`, a prefix otherwise).
pub fn iter_laws<T, I>(name: &str, mk: impl Fn() -> I, reference: &[T], finite: bool) -> Result<(), String>
where
    T: PartialEq + Debug,
    I: Iterator<Item = T>,
{
    let n = reference.len();
    let pad = if finite { 3 } else { 0 };
    let got: Vec<T> = mk().take(n + pad).collect();
    if got.as_slice() != reference {
        return Err(format!("{}: yields {:?}, expected {:?}", name, got.iter().take(8).collect::<Vec<_>>(), reference.iter().take(8).collect::<Vec<_>>()));
    }
    let ks = [0usize, 1, 2, n / 2, n.saturating_sub(1), n, n + 1];
    for &k in &ks {
        if !finite && k >= n {
            continue;
        }
        let mut it = mk();
        let g = it.nth(k);
        if g.as_ref() != reference.get(k) {
            return Err(format!("{}: nth({}) = {:?}, expected {:?}", name, k, g, reference.get(k)));
        }
        let rest: Vec<T> = it.take(n + pad).collect();
        let exp = if k < n { &reference[k + 1..] } else { &reference[n..] };
        if (finite && rest.as_slice() != exp) || (!finite && !rest.starts_with(exp)) {
            return Err(format!("{}: after nth({}) the iterator yields {} items starting {:?}, expected {} starting {:?}", name, k, rest.len(), rest.iter().take(4).collect::<Vec<_>>(), exp.len(), exp.iter().take(4).collect::<Vec<_>>()));
        }
        let sk: Vec<T> = mk().skip(k).take(n + pad).collect();
        let exp = if k < n { &reference[k..] } else { &reference[n..] };
        if (finite && sk.as_slice() != exp) || (!finite && !sk.starts_with(exp)) {
            return Err(format!("{}: skip({}) yields {} items, expected {}", name, k, sk.len(), exp.len()));
        }
    }
    for step in [2usize, 3] {
        let st: Vec<T> = mk().step_by(step).take(n / step + pad + 1).collect();
        let exp: Vec<&T> = reference.iter().step_by(step).collect();
        let ok = if finite { st.iter().collect::<Vec<_>>() == exp } else { st.iter().zip(exp.iter()).all(|(a, b)| a == *b) && st.len() >= exp.len().min(n / step) };
        if !ok {
            return Err(format!("{}: step_by({}) yields {:?}, expected {:?}", name, step, st.iter().take(6).collect::<Vec<_>>(), exp.iter().take(6).collect::<Vec<_>>()));
        }
    }
    // size_hint brackets what is still to come, at every position
    let mut it = mk();
    for k in 0..=n {
        let (lo, hi) = it.size_hint();
        if finite {
            let remaining = n - k;
            if lo > remaining || hi.map_or(false, |h| h < remaining) {
                return Err(format!("{}: after {} items size_hint() = ({}, {:?}) but {} items remain", name, k, lo, hi, remaining));
            }
        } else if let Some(h) = hi {
            if h < n - k {
                return Err(format!("{}: after {} items size_hint() upper bound {} is below the {} items known to follow", name, k, h, n - k));
            }
        }
        if k < n && it.next().is_none() {
            return Err(format!("{}: ended after {} items, expected {}", name, k, n));
        }
    }
    if finite {
        for j in 0..3 {
            if it.next().is_some() {
                return Err(format!("{}: yields an item on call {} after it had ended", name, j + 1));
            }
        }
        let c = mk().count();
        if c != n {
            return Err(format!("{}: count() = {}, but next() yields {} items", name, c, n));
        }
        let l = mk().last();
        if l.as_ref() != reference.last() {
            return Err(format!("{}: last() = {:?}, expected {:?}", name, l, reference.last()));
        }
    }
    Ok(())
}
