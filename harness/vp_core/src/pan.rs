//! Silent panic capture: a panic inside a library call whose contract is "returns a value" is
//! turned into `Err("panic: ...")`; where the contract is "panics" the harness asserts it.
//!
//! Non-unwinding failures (the "unsafe precondition(s) violated" checks that `get_unchecked`,
//! `from_raw_parts` & co. perform in a debug-assertion build, or a fatal signal) cannot be
//! caught.  For those the engine leaves a *breadcrumb* — the case being executed on this thread
//! — and the panic hook / signal handler writes it out as the replay file, prints the VIOLATION
//! line and terminates the process with exit code 1.

use serde_json::{json, Value};
use std::cell::{Cell, RefCell};
use std::panic::{catch_unwind, AssertUnwindSafe};
use std::path::PathBuf;
use std::sync::{Once, OnceLock};

thread_local! {
    static LAST: RefCell<Option<String>> = const { RefCell::new(None) };
    /// (sub-check name, closure producing the current case)
    static CURRENT: Cell<Option<(*const str, *const (dyn Fn() -> Value + 'static))>> = const { Cell::new(None) };
}

static HOOK: Once = Once::new();
static IDENT: OnceLock<(String, PathBuf, String, u64)> = OnceLock::new();

/// property id / verif dir / tier / seed, for replay files written from the hook
pub fn set_identity(id: &str, verif: PathBuf, tier: &str, seed: u64) {
    let _ = IDENT.set((id.to_string(), verif, tier.to_string(), seed));
}

/// Run `f` with a breadcrumb naming the case it executes.
pub fn with_case<R>(sub: &str, mk: &dyn Fn() -> Value, f: impl FnOnce() -> R) -> R {
    struct Clear(Option<(*const str, *const (dyn Fn() -> Value + 'static))>);
    impl Drop for Clear {
        fn drop(&mut self) {
            CURRENT.with(|c| c.set(self.0));
        }
    }
    ensure_altstack();
    // erase the lifetime: the pointer is only dereferenced while `f` runs
    let p: *const (dyn Fn() -> Value + '_) = mk;
    let p: *const (dyn Fn() -> Value + 'static) = unsafe { std::mem::transmute(p) };
    let prev = CURRENT.with(|c| c.replace(Some((sub as *const str, p))));
    let _g = Clear(prev);
    f()
}

thread_local! {
    static ALTSTACK: std::cell::Cell<bool> = std::cell::Cell::new(false);
}

/// every thread that runs cases gets a 1 MiB alternate signal stack, so that the fatal-signal handler can still write the
/// breadcrumb out when the failure is a stack overflow (unbounded recursion inside the library)
fn ensure_altstack() {
    ALTSTACK.with(|a| {
        if !a.get() {
            a.set(true);
            unsafe {
                let size: usize = 1 << 20;
                let mem = libc::mmap(std::ptr::null_mut(), size, libc::PROT_READ | libc::PROT_WRITE, libc::MAP_PRIVATE | libc::MAP_ANONYMOUS, -1, 0);
                if mem != libc::MAP_FAILED {
                    let ss = libc::stack_t { ss_sp: mem, ss_flags: 0, ss_size: size };
                    libc::sigaltstack(&ss, std::ptr::null_mut());
                }
            }
        }
    });
}

fn die_with_breadcrumb(msg: &str) -> ! {
    let (id, verif, tier, seed) = IDENT
        .get()
        .cloned()
        .unwrap_or_else(|| ("?".into(), PathBuf::from("/verif"), "quick".into(), 1));
    let cur = CURRENT.with(|c| c.get());
    match cur {
        Some((sub, mk)) => {
            let sub: &str = unsafe { &*sub };
            let case = unsafe { (&*mk)() };
            let dir = verif.join("replays").join("new");
            let _ = std::fs::create_dir_all(&dir);
            let s = serde_json::to_string(&case).unwrap_or_default();
            let mut h: u64 = 0xcbf2_9ce4_8422_2325;
            for b in s.bytes().chain(sub.bytes()) {
                h = (h ^ b as u64).wrapping_mul(0x1000_0000_01b3);
            }
            let p = dir.join(format!("{}-{}-{:016x}.json", id, sub.replace('/', "_"), h));
            let doc = json!({"property": id, "sub": sub, "case": case, "message": msg, "tier": tier, "seed": seed, "fatal": true});
            let _ = std::fs::write(&p, serde_json::to_string_pretty(&doc).unwrap_or_default());
            println!("VIOLATION property={} replay={}", id, p.display());
            println!("  sub-check: {}", sub);
            println!("  message:   fatal (non-unwinding) failure inside the library: {}", msg);
            let c: String = s.chars().take(1500).collect();
            println!("  case:      {}", c);
            use std::io::Write;
            let _ = std::io::stdout().flush();
            std::process::exit(1);
        }
        None => {
            eprintln!("INCONCLUSIVE: fatal failure outside any case: {}", msg);
            std::process::exit(2);
        }
    }
}

extern "C" fn on_signal(sig: libc::c_int) {
    // not async-signal-safe; the process is lost anyway and this is best effort
    // a non-unwinding panic runs the hook (which stored its message) and then aborts
    let last = LAST.with(|l| l.try_borrow().ok().and_then(|b| b.clone())).unwrap_or_default();
    let what = if sig == libc::SIGSEGV || sig == libc::SIGBUS { " (invalid memory access or stack overflow, e.g. unbounded recursion)" } else { "" };
    die_with_breadcrumb(&format!("fatal signal {}{} {}", sig, what, last));
}

pub fn install_hook() {
    HOOK.call_once(|| {
        std::panic::set_hook(Box::new(|info| {
            let msg = if let Some(s) = info.payload().downcast_ref::<&str>() {
                (*s).to_string()
            } else if let Some(s) = info.payload().downcast_ref::<String>() {
                s.clone()
            } else {
                "<non-string panic payload>".to_string()
            };
            let loc = info
                .location()
                .map(|l| format!("{}:{}", l.file(), l.line()))
                .unwrap_or_default();
            let full = format!("{} at {}", msg, loc);
            if msg.starts_with("unsafe precondition(s) violated") {
                die_with_breadcrumb(&full);
            }
            LAST.with(|l| *l.borrow_mut() = Some(full));
        }));
        unsafe {
            for sig in [libc::SIGSEGV, libc::SIGBUS, libc::SIGILL, libc::SIGFPE, libc::SIGABRT] {
                let mut sa: libc::sigaction = std::mem::zeroed();
                sa.sa_sigaction = on_signal as *const () as usize;
                sa.sa_flags = libc::SA_ONSTACK;
                libc::sigemptyset(&mut sa.sa_mask);
                libc::sigaction(sig, &sa, std::ptr::null_mut());
            }
        }
    });
}

/// Run `f`; `Ok(value)` or `Err(panic message with location)`.
pub fn catch<R>(f: impl FnOnce() -> R) -> Result<R, String> {
    install_hook();
    match catch_unwind(AssertUnwindSafe(f)) {
        Ok(r) => Ok(r),
        Err(_) => Err(LAST
            .with(|l| l.borrow_mut().take())
            .unwrap_or_else(|| "<unknown panic>".into())),
    }
}

/// A chunk of a hand-written bulk loop: `f(false)` is the fast pass; if anything inside it panics (a panic inside the
/// library under test), the chunk is run again as `f(true)`, in which every single evaluation is wrapped in `catch`
/// (see `guard!`) so that the panicking input is identified and reported as an ordinary failure with its case.
pub fn two_pass<R>(f: impl Fn(bool) -> R) -> R {
    install_hook();
    match catch_unwind(AssertUnwindSafe(|| f(false))) {
        Ok(r) => r,
        Err(_) => {
            let _ = LAST.with(|l| l.borrow_mut().take());
            f(true)
        }
    }
}

/// Does `f` panic?
pub fn panics<R>(f: impl FnOnce() -> R) -> bool {
    catch(f).is_err()
}
