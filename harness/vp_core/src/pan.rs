//! Silent panic capture: a panic inside a library call whose contract is "returns a value" is
//! turned into `Err("panic: ...")`; where the contract is "panics" the harness asserts it.

use std::cell::RefCell;
use std::panic::{catch_unwind, AssertUnwindSafe};
use std::sync::Once;

thread_local! {
    static LAST: RefCell<Option<String>> = const { RefCell::new(None) };
}

static HOOK: Once = Once::new();

pub fn install_hook() {
    HOOK.call_once(|| {
        std::panic::set_hook(Box::new(|info| {
            let msg = if let Some(s) = info.payload().downcast_ref::<&str>() {
                (*s).to_string()
            } else if let Some(s) = info.payload().downcast_ref::<String>() {
                s.clone()
            } else {
                "<non-string panic payload>".to_string()
            };
            let loc = info
                .location()
                .map(|l| format!("{}:{}", l.file(), l.line()))
                .unwrap_or_default();
            LAST.with(|l| *l.borrow_mut() = Some(format!("{} at {}", msg, loc)));
        }));
    });
}

/// Run `f`; `Ok(value)` or `Err(panic message with location)`.
pub fn catch<R>(f: impl FnOnce() -> R) -> Result<R, String> {
    install_hook();
    match catch_unwind(AssertUnwindSafe(f)) {
        Ok(r) => Ok(r),
        Err(_) => Err(LAST
            .with(|l| l.borrow_mut().take())
            .unwrap_or_else(|| "<unknown panic>".into())),
    }
}

/// Does `f` panic?
pub fn panics<R>(f: impl FnOnce() -> R) -> bool {
    catch(f).is_err()
}
