//! vp_nostd — the no_std half of C11.
#[path = "../../vp_sig/src/c11_core.rs"]
mod c11_core;

fn main() {
    let mut ctx = vp_core::Ctx::from_args();
    ctx.self_test("softfloat", vp_core::softfloat::self_test());
    if ctx.id != "C11" {
        eprintln!("vp_nostd: unknown property {}", ctx.id);
        std::process::exit(2);
    }
    if !c11_core::sqrt_is_approximate() {
        ctx.inconclusive("vp_nostd was built with the std square root (feature unification?): the no_std configuration is not what is being tested");
    } else {
        c11_core::run_core(&mut ctx);
    }
    std::process::exit(ctx.finish());
}
