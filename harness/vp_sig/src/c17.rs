//! C17 — oscillators and noise keep phase and amplitude in range at any rate.

use crate::tree::FnProbe;
use dasp_signal::{self as signal, Signal};
use proptest::prelude::*;
use serde::{Deserialize, Serialize};
use vp_buf::probe::Counters;
use vp_core::softfloat::dec_f64;
use vp_core::{ensure, pan, CheckResult, Ctx, Stats};

#[derive(Clone, Debug, Serialize, Deserialize)]
pub struct OscCase {
    /// f64 bit patterns
    pub rate: u64,
    /// one value: ConstHz path; several: the per-frame Hz<S> path, cycled
    pub hz: Vec<u64>,
    pub frames: u64,
    /// power-of-two rate and dyadic frequencies: the phase accumulation is exact
    pub exact: bool,
    /// per-frame path only: the frequency signal ends after this many frames (it then reports
    /// exhaustion and yields 0 Hz) — one frequency frame must still be consumed per output frame
    #[serde(default)]
    pub hz_len: Option<u64>,
}

/// step as an integer multiple of 2^-64, rounded to nearest (exact whenever representable)
fn scaled_round(x: f64) -> Option<(i128, bool)> {
    let d = dec_f64(x)?;
    if d.mant == 0 {
        return Some((0, true));
    }
    let sh = d.exp + 64;
    if sh >= 0 {
        if sh > 60 {
            return None;
        }
        Some(((d.mant as i128) << sh, true))
    } else {
        let s = (-sh) as u32;
        if s >= 64 {
            return Some((0, false));
        }
        let fl = (d.mant >> s) as i128;
        let rem = d.mant & ((1u64 << s) - 1);
        let exact = rem == 0;
        Some((fl + ((rem >> (s - 1)) & 1) as i128, exact))
    }
}

thread_local! { static HZ: std::cell::RefCell<Vec<f64>> = const { std::cell::RefCell::new(Vec::new()) }; }
fn hz_at(i: u64) -> f64 {
    HZ.with(|v| {
        let v = v.borrow();
        v[(i % v.len() as u64) as usize]
    })
}

const TWO64: f64 = 18446744073709551616.0;

pub fn check_osc(c: &OscCase, st: &mut Stats) -> CheckResult {
    let rate = f64::from_bits(c.rate);
    let hz: Vec<f64> = c.hz.iter().map(|b| f64::from_bits(*b)).collect();
    ensure!(rate > 0.0 && rate.is_finite() && !hz.is_empty(), "bad case: rate must be > 0");
    let steps: Vec<f64> = hz.iter().map(|h| h / rate).collect();
    for (h, s) in hz.iter().zip(&steps) {
        ensure!(h.is_finite() && *h >= 0.0 && s.is_finite(), "bad case: frequency must be finite, >= 0, with a finite hz/rate");
    }
    let step_max = steps.iter().cloned().fold(0.0f64, f64::max);
    let varying = hz.len() > 1;
    HZ.with(|v| *v.borrow_mut() = hz.clone());

    // five independent, identically driven instances: phase, sine, saw, square, simplex
    let cnt: Vec<Counters> = (0..5).map(|_| Counters::new()).collect();
    let hz_len = if varying { c.hz_len } else { None };
    let mk = |i: usize| FnProbe::new(hz_len, hz_at as fn(u64) -> f64, cnt[i].clone());
    enum Five {
        Const(signal::Phase<signal::ConstHz>, signal::Sine<signal::ConstHz>, signal::Saw<signal::ConstHz>, signal::Square<signal::ConstHz>, signal::NoiseSimplex<signal::ConstHz>),
        Var(
            signal::Phase<signal::Hz<FnProbe<f64>>>,
            signal::Sine<signal::Hz<FnProbe<f64>>>,
            signal::Saw<signal::Hz<FnProbe<f64>>>,
            signal::Square<signal::Hz<FnProbe<f64>>>,
            signal::NoiseSimplex<signal::Hz<FnProbe<f64>>>,
        ),
    }
    let r = signal::rate(rate);
    let mut five = if varying {
        // method chains and module functions both
        Five::Var(r.hz(mk(0)).phase(), r.hz(mk(1)).sine(), signal::saw(signal::phase(r.hz(mk(2)))), r.hz(mk(3)).square(), r.hz(mk(4)).noise_simplex())
    } else {
        Five::Const(r.const_hz(hz[0]).phase(), signal::sine(signal::phase(r.const_hz(hz[0]))), r.const_hz(hz[0]).saw(), r.const_hz(hz[0]).square(), r.const_hz(hz[0]).noise_simplex())
    };
    let mut simplex_phase = match &five {
        Five::Const(..) => Some(signal::phase(r.const_hz(hz[0]))),
        _ => None,
    };

    // exact regime with steps far below 2^-64 (subnormal): the phase is the plain f64 sum of the steps, which is exact
    let subnormal_regime = c.exact && steps.iter().all(|s| *s < 2f64.powi(-1040)) && steps.iter().any(|s| *s > 0.0) && c.frames <= 4096;
    let mut sub_acc = 0.0f64;
    if !varying {
        // a Phase that has already run for j frames, turned into an oscillator through the method form, carries on from there
        for j in [1u64, 3] {
            let mut p = r.const_hz(hz[0]).phase();
            for _ in 0..j {
                let _ = p.next();
            }
            let (mut s, mut w, mut q) = (p.clone().sine(), p.clone().saw(), p.clone().square());
            let ph = p.next();
            let pi = std::f64::consts::PI;
            let (sv, wv, qv) = (s.next(), w.next(), q.next());
            ensure!((sv - 2.0 * (pi * ph).sin() * (pi * ph).cos()).abs() <= 1e-12, "Phase advanced {} frames then .sine(): first output {} is not sin(2 pi {})", j, sv, ph);
            ensure!((wv - (1.0 - 2.0 * ph)).abs() <= 4.0 * f64::EPSILON, "Phase advanced {} frames then .saw(): first output {} is not 1 - 2 x {}", j, wv, ph);
            ensure!(qv == if ph < 0.5 { 1.0 } else { -1.0 }, "Phase advanced {} frames then .square(): first output {} at phase {}", j, qv, ph);
        }
    }
    let mut acc: i128 = 0; // exact sum of steps, modulo 2^64 (i.e. modulo 1.0), in 2^-64 units
    let mut inexact_steps = 0u64;
    // accumulated rounding allowance: each `(phase + step) % 1.0` rounds once, by at most half an ulp of phase + step
    let mut tol_acc = 0.0f64;
    let mut tiny_step = false;
    let mask: i128 = (1i128 << 64) - 1;
    for n in 0..c.frames {
        let (phase, sine, saw, square, simplex) = match &mut five {
            Five::Const(p, s, w, q, x) => (p.next(), s.next(), w.next(), q.next(), x.next()),
            Five::Var(p, s, w, q, x) => (p.next(), s.next(), w.next(), q.next(), x.next()),
        };
        if varying {
            for (i, ct) in cnt.iter().enumerate() {
                ensure!(ct.pulls() == n + 1, "frame {}: oscillator #{} has consumed {} frequency frames for {} output frames", n, i, ct.pulls(), n + 1);
            }
        }
        ensure!(phase >= 0.0 && phase < 1.0, "frame {}: phase {} outside [0, 1)", n, phase);
        if n == 0 {
            ensure!(phase == 0.0, "the phase does not start at 0 (got {})", phase);
        }
        let model = (acc & mask) as f64 / TWO64;
        if subnormal_regime {
            ensure!(phase == sub_acc, "frame {}: phase {:e} but the (exact) sum of the subnormal steps so far is {:e}", n, phase, sub_acc);
        } else if c.exact {
            ensure!(inexact_steps == 0, "bad case: exact regime with a step that is not a multiple of 2^-64");
            ensure!(phase == model, "frame {}: phase {} but the sum of frequency/rate steps wrapped into [0,1) is {}", n, phase, model);
        } else {
            let tol = tol_acc + inexact_steps as f64 * 2f64.powi(-64);
            let d = (phase - model).abs();
            let circ = d.min(1.0 - d);
            ensure!(circ <= tol, "frame {}: phase {} is {} away (circularly) from the exact accumulated phase {}; allowed {}", n, phase, circ, model, tol);
        }
        // amplitudes, against the phase the oscillators used
        let pi = std::f64::consts::PI;
        let sin_ref = 2.0 * (pi * phase).sin() * (pi * phase).cos();
        ensure!((sine - sin_ref).abs() <= 1e-12, "frame {}: sine = {}, sin(2 pi {}) = {}", n, sine, phase, sin_ref);
        ensure!(sine >= -1.0 && sine <= 1.0, "frame {}: sine {} outside [-1, 1]", n, sine);
        let saw_ref = 1.0 - 2.0 * phase;
        ensure!((saw - saw_ref).abs() <= 4.0 * f64::EPSILON, "frame {}: saw = {}, 1 - 2*{} = {}", n, saw, phase, saw_ref);
        ensure!(saw >= -1.0 && saw <= 1.0, "frame {}: saw {} outside [-1, 1]", n, saw);
        let sq_ref = if phase < 0.5 { 1.0 } else { -1.0 };
        ensure!(square == sq_ref, "frame {}: square = {} at phase {}", n, square, phase);
        ensure!(simplex >= -1.0 && simplex <= 1.0 && !simplex.is_nan(), "frame {}: simplex noise {} outside [-1, 1]", n, simplex);
        if let Some(sp) = simplex_phase.as_mut() {
            // simplex output is a function of the (2^16-wrapped) phase only: evaluate it at that phase
            // through a fresh generator whose first step lands exactly there
            let ph16 = sp.next_phase_wrapped_to(65536.0);
            ensure!(ph16 >= 0.0 && ph16 < 65536.0, "frame {}: simplex phase {} outside [0, 65536)", n, ph16);
            if n % 7 == 0 || n < 8 {
                let mut probe = signal::rate(1.0).const_hz(ph16).noise_simplex();
                let _ = probe.next();
                let at = probe.next();
                ensure!(at == simplex, "frame {}: simplex noise {} differs from its value {} at the same phase {}", n, simplex, at, ph16);
            }
        }
        // advance the model
        let s = if hz_len.map_or(false, |l| n >= l) { 0.0 } else { steps[(n % steps.len() as u64) as usize] };
        tol_acc += 2f64.powi(-52) * (phase + s);
        sub_acc += s;
        tiny_step |= s > 0.0 && s < f64::EPSILON;
        // only the fractional part of a step moves the wrapped phase; `s % 1.0` is exact in f64
        match scaled_round(s % 1.0) {
            Some((v, ex)) => {
                acc = (acc + (v & mask)) & mask;
                if !ex {
                    inexact_steps += 1;
                }
            }
            None => return Err("harness: a fractional part must be representable at 2^-64".into()),
        }
    }
    st.nt(step_max >= 1.0 || varying || c.frames > 100_000);
    st.class_if(step_max >= 1.0, "step >= 1 (frequency at or above the rate)");
    st.class_if(varying, "varying frequency");
    st.class_if(c.frames > 100_000, "run longer than 1e5 frames");
    st.class_if(c.exact, "exact regime");
    st.class_if(hz.iter().any(|h| *h == 0.0), "zero frequency");
    st.class_if(tiny_step, "step below 2^-52 (but not zero)");
    st.class_if(subnormal_regime, "subnormal steps (exact)");
    st.class_if(rate < 1.0, "rate below 1");
    st.class_if(c.exact && rate.log2().fract() != 0.0, "exact regime at a rate that is not a power of two");
    st.class_if(hz_len.map_or(false, |l| l < c.frames), "frequency signal exhausted during the run");
    Ok(())
}

#[derive(Clone, Debug, Serialize, Deserialize)]
pub struct NoiseCase {
    pub seed: u64,
    pub frames: u64,
}

pub fn check_noise(c: &NoiseCase, st: &mut Stats) -> CheckResult {
    let boundary = c.seed.checked_add(c.frames + 2).is_none() || c.seed == 0 || c.seed == 1 << 32 || c.seed == 1 << 63;
    st.nt(boundary);
    st.class_if(c.seed.checked_add(c.frames + 2).is_none(), "seed within a run length of u64::MAX");
    let run = |seed: u64, n: u64| -> Result<Vec<f64>, String> {
        pan::catch(|| {
            let mut s = signal::noise(seed);
            (0..n).map(|_| s.next()).collect::<Vec<f64>>()
        })
        .map_err(|p| format!("noise({}) panicked within {} frames: {}", seed, n, p))
    };
    let a = run(c.seed, c.frames)?;
    for (i, v) in a.iter().enumerate() {
        ensure!(*v >= -1.0 && *v <= 1.0 && !v.is_nan(), "noise({}) frame {} = {} outside [-1, 1]", c.seed, i, v);
    }
    // restarts and clones reproduce the stream bit for bit
    let b = run(c.seed, c.frames)?;
    ensure!(a.iter().zip(&b).all(|(x, y)| x.to_bits() == y.to_bits()), "noise({}) is not reproducible on restart", c.seed);
    let cl = pan::catch(|| {
        let mut s = signal::noise(c.seed);
        let half = c.frames / 2;
        for _ in 0..half {
            s.next();
        }
        let mut t = s.clone();
        let x: Vec<f64> = (half..c.frames).map(|_| s.next()).collect();
        let y: Vec<f64> = (half..c.frames).map(|_| t.next()).collect();
        (x, y)
    })
    .map_err(|p| format!("noise({}) panicked: {}", c.seed, p))?;
    ensure!(cl.0.iter().zip(&cl.1).all(|(x, y)| x.to_bits() == y.to_bits()), "a clone of noise({}) diverges from the original", c.seed);
    ensure!(cl.0.iter().zip(&a[(c.frames / 2) as usize..]).all(|(x, y)| x.to_bits() == y.to_bits()), "noise({}) second half differs between runs", c.seed);
    // pure function of seed + frame index (wherever seed + n does not overflow)
    for n in [0u64, 1, 2, c.frames / 3, c.frames.saturating_sub(1)] {
        if n < c.frames {
            if let Some(s2) = c.seed.checked_add(n) {
                let f0 = run(s2, 1)?;
                ensure!(f0[0].to_bits() == a[n as usize].to_bits(), "noise({}) frame {} = {} but noise({}) frame 0 = {}", c.seed, n, a[n as usize], s2, f0[0]);
            }
        }
    }
    // next_sample is the same stream
    let ns = pan::catch(|| {
        let mut s = signal::noise(c.seed);
        (0..c.frames.min(16)).map(|_| s.next_sample()).collect::<Vec<f64>>()
    })
    .map_err(|p| format!("noise({}).next_sample panicked: {}", c.seed, p))?;
    ensure!(ns.iter().zip(&a).all(|(x, y)| x.to_bits() == y.to_bits()), "next_sample() differs from next()");
    Ok(())
}

fn rate_strategy(exact: bool) -> BoxedStrategy<f64> {
    if exact {
        // hz = step x rate is exact for every one of these rates (steps are k/2^m), and so is hz / rate = step
        prop_oneof![
            3 => (-4i32..=20).prop_map(|k| 2f64.powi(k)),
            2 => proptest::sample::select(vec![3.0, 7.0, 49.0, 98.0, 441.0, 44100.0, 48000.0, 12544.0, 6.125, 22050.0, 96000.0]),
            1 => (1u32..200_000).prop_map(|r| r as f64),
        ]
        .boxed()
    } else {
        prop_oneof![
            3 => proptest::sample::select(vec![44100.0, 48000.0, 1.0, 1e-3, 1e9, 96000.0, 8000.0, 22050.0]),
            2 => (-10i32..=30).prop_map(|k| 2f64.powi(k)),
            2 => (1e-3f64..1e6),
        ]
        .boxed()
    }
}

/// frequency as a step multiplier: hz = step * rate (kept finite)
fn step_strategy(exact: bool) -> BoxedStrategy<f64> {
    if exact {
        prop_oneof![
            4 => (0u64..(1 << 20), 0u32..=20).prop_map(|(k, m)| k as f64 / (1u64 << m) as f64),
            1 => Just(0.0),
            1 => (0u64..(1u64 << 40)).prop_map(|k| k as f64 / (1u64 << 30) as f64),
        ]
        .boxed()
    } else {
        prop_oneof![
            4 => (0.0f64..0.5),
            2 => (0.0f64..3.0),
            1 => (1.0f64..1e12),
            1 => (1e12f64..1e30),
            1 => (0.0f64..1e-9),
            1 => (1e-19f64..3e-16),
            1 => proptest::sample::select(vec![0.0, 1.0, 0.5, 0.25, 440.0 / 44100.0, 1e-12, 1e12, 0.9999999999999999, 1.0000000000000002, 1e-17, 8.673617379884035e-19, 9.3e18, 1e19, 1e20, 4503599627370497.5, 1e25, 0.49999999999999994, 0.5000000000000001, 0.24999999999999997, 0.7499999999999999]),
        ]
        .boxed()
    }
}

pub fn osc_strategy(max_frames: u64) -> impl Strategy<Value = OscCase> {
    (any::<bool>(), 0u32..5).prop_flat_map(move |(exact, tiny)| {
        // exact regime, one case in five: every step is k x 2^-64 with k < 2^20, so all partial sums stay exactly representable
        let step = if exact && tiny == 0 {
            (0u64..(1 << 20)).prop_map(|k| k as f64 * 2f64.powi(-64)).boxed()
        } else if exact && tiny == 1 {
            // k x 2^-1074: subnormal steps (the rate is raised to >= 1 below so that hz = step x rate stays exact)
            (1u64..(1 << 30)).prop_map(f64::from_bits).boxed()
        } else {
            step_strategy(exact)
        };
        (rate_strategy(exact), proptest::collection::vec(step, 1..6), 1u64..max_frames, any::<bool>(), prop_oneof![2 => Just(None), 1 => (0u64..200).prop_map(Some)]).prop_map(move |(rate, steps, frames, constant, hz_len)| {
            let rate = if exact && tiny == 1 { rate.max(1.0) } else { rate };
            // exact regime at a rate that is not a power of two: hz = step x rate must itself be exact, so the steps are kept
            // to 30 significant bits (at most 2^10 with 20 fractional bits)
            let steps: Vec<f64> = if exact && tiny >= 2 && rate.log2().fract() != 0.0 { steps.iter().map(|s| ((s % 1024.0) * 1048576.0).floor() / 1048576.0).collect() } else { steps };
            let mut hz: Vec<f64> = steps.iter().map(|s| s * rate).collect();
            // exact regime: step * rate must itself be exact and divide back exactly (power-of-two rate: yes)
            if constant {
                hz.truncate(1);
            }
            hz.retain(|h| h.is_finite() && (h / rate).is_finite());
            if hz.is_empty() {
                hz.push(0.0);
            }
            OscCase { rate: rate.to_bits(), hz: hz.iter().map(|h| h.to_bits()).collect(), frames, exact, hz_len }
        })
    })
}

pub fn run(ctx: &mut Ctx) {
    ctx.set_rule(
        "oscillators: (rate, frequency sequence (one value = ConstHz path, several = per-frame Hz path), number of frames, exact flag); rates from powers of two, 44100, 48000, 1, 1e-3, 1e9 and random; \
         frequencies as steps hz/rate in [0, 1e30] (beyond 2^63) incl. 0, >= rate, tiny (down to 1e-19, below 2^-52); exact regime = dyadic steps at a power-of-two rate (2^-4 .. 2^20) or at integer rates such as 49, 441, 44100, 48000 (hz = step x rate and hz / rate are then exact as well), one case in five with every step k x 2^-64 and one in five with subnormal steps k x 2^-1074 (the phase is then the exact f64 sum); runs up to 2000 frames plus long runs; noise: seeds 0, 1, 2^32, 2^63, u64::MAX - k and random, plus 2^31 (thorough 2^32) consecutive frames covering the generator's whole counter period; \
         non-trivial: step >= 1, varying frequency, run > 1e5 frames (oscillators); boundary seed (noise)",
    );
    ctx.assume("the phase used by an oscillator is observed through an identically driven Phase signal (same code, same frequency sequence); exact regime: phase_n == frac(sum of steps) exactly; general: circular distance <= sum over the frames so far of 2^-52 x (phase + step), i.e. one ulp of each addition");
    ctx.assume("sine compared with 2 sin(pi p) cos(pi p) within 1e-12, saw with 1-2p within 4 ulp, square exactly; how the noise counter behaves past u64::MAX is not asserted, only that every frame is produced, in range and reproducible");
    for c in ["step >= 1 (frequency at or above the rate)", "varying frequency", "run longer than 1e5 frames", "exact regime", "seed within a run length of u64::MAX", "frequency signal exhausted during the run", "step below 2^-52 (but not zero)", "rate below 1", "subnormal steps (exact)", "exact regime at a rate that is not a power of two"] {
        ctx.require_class(c);
    }
    ctx.prop("oscillators/random", ctx.pick(20_000, 100_000), osc_strategy(2000), check_osc);
    let long = ctx.pick(1_000_000u64, 20_000_000);
    let long_cases = vec![
        OscCase { rate: 44100f64.to_bits(), hz: vec![1e-7f64.to_bits()], frames: long, exact: false, hz_len: None },
        OscCase { rate: 48000f64.to_bits(), hz: vec![(48000.0f64 * 1e9).to_bits()], frames: long / 4, exact: false, hz_len: None },
        OscCase { rate: 44100f64.to_bits(), hz: vec![440f64.to_bits(), 880f64.to_bits(), 0f64.to_bits()], frames: long / 4, exact: false, hz_len: None },
        OscCase { rate: 65536f64.to_bits(), hz: vec![(65536.0f64 * 3.0 / 1024.0).to_bits(), 4096f64.to_bits()], frames: long / 4, exact: true, hz_len: None },
    ];
    let n = long_cases.len() as u64;
    ctx.par_enumerate("oscillators/long-runs", true, n, move |i| long_cases[i as usize].clone(), check_osc);

    // the whole counter period of the noise generator: every one of 2^31 consecutive frames (thorough: 2^32) lies in [-1, 1]
    let span: u64 = ctx.pick(1u64 << 31, 1u64 << 32);
    let chunks = 256u64;
    ctx.par_enumerate(
        "noise/full-period-range",
        true,
        chunks,
        move |i| NoiseCase { seed: i * (span / chunks), frames: span / chunks },
        |c: &NoiseCase, st: &mut Stats| {
            st.nt(true);
            let mut s = signal::noise(c.seed);
            for k in 0..c.frames {
                let v = s.next();
                if !(v >= -1.0 && v <= 1.0) {
                    return Err(format!("noise({}) frame {} = {} outside [-1, 1]", c.seed, k, v));
                }
            }
            Ok(())
        },
    );
    let mut seeds: Vec<u64> = vec![0, 1, 2, 1 << 32, (1 << 32) - 1, 1 << 63, (1 << 63) - 1, u64::MAX];
    for k in 0..=300 {
        seeds.push(u64::MAX - k);
    }
    let cases: Vec<NoiseCase> = seeds.iter().map(|&seed| NoiseCase { seed, frames: 200 }).collect();
    ctx.enumerate("noise/boundary-seeds", true, cases.into_iter(), check_noise);
    let strat = (prop_oneof![3 => any::<u64>(), 1 => (0u64..2000).prop_map(|k| u64::MAX - k), 1 => 0u64..100_000], 1u64..600).prop_map(|(seed, frames)| NoiseCase { seed, frames });
    ctx.prop("noise/random-seeds", ctx.pick(20_000, 200_000), strat, check_noise);
}
