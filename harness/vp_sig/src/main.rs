fn main() {
    let mut ctx = vp_core::Ctx::from_args();
    ctx.self_test("softfloat", vp_core::softfloat::self_test());
    ctx.self_test("allocator", vp_core::alloc::self_test());
    match ctx.id.as_str() {
        "C04" => vp_sig::c04::run(&mut ctx),
        "C05" => vp_sig::c05::run(&mut ctx),
        "C08" => vp_sig::c08::run(&mut ctx),
        "C11" => vp_sig::c11::run(&mut ctx),
        "C17" => vp_sig::c17::run(&mut ctx),
        "C18" => vp_sig::c18::run(&mut ctx),
        "C19" => vp_sig::c19::run(&mut ctx),
        "C20" => vp_sig::c20::run(&mut ctx),
        other => {
            eprintln!("vp_sig: unknown property {}", other);
            std::process::exit(2);
        }
    }
    std::process::exit(ctx.finish());
}
