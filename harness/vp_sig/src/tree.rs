//! Dynamic adaptor trees (DESIGN §3.5): every AST node applies the *real* dasp adaptor to a
//! type-erased child.  Shared by C04 (pointwise / lock-step) and C05 (exhaustion).

use dasp_frame::Frame;
use dasp_sample::{Sample, I24};
use dasp_signal::{self as signal, Signal};
use serde::{Deserialize, Serialize};
use std::cell::Cell;
use std::rc::Rc;
use vp_buf::probe::Counters;
use vp_core::fmt::{Fmt, Kind, Val};

/// type-erased signal (dasp_signal's own Box impl sits behind a misspelt cfg and is never compiled)
pub struct Dyn<F: Frame>(pub Box<dyn Signal<Frame = F>>);
impl<F: Frame> Signal for Dyn<F> {
    type Frame = F;
    fn next(&mut self) -> F {
        self.0.next()
    }
    fn is_exhausted(&self) -> bool {
        self.0.is_exhausted()
    }
}
pub fn erase<S: Signal + 'static>(s: S) -> Dyn<S::Frame> {
    Dyn(Box::new(s))
}

/// a probe whose frame k is `f(k)`
pub struct FnProbe<F> {
    pub counters: Counters,
    pub len: Option<u64>,
    pos: u64,
    f: fn(u64) -> F,
}
impl<F: Frame> FnProbe<F> {
    pub fn new(len: Option<u64>, f: fn(u64) -> F, counters: Counters) -> Self {
        FnProbe { counters, len, pos: 0, f }
    }
}
impl<F: Frame> Signal for FnProbe<F> {
    type Frame = F;
    fn next(&mut self) -> F {
        self.counters.pulls.set(self.counters.pulls.get() + 1);
        let p = self.pos;
        self.pos += 1;
        match self.len {
            Some(n) if p >= n => F::EQUILIBRIUM,
            _ => (self.f)(p),
        }
    }
    fn is_exhausted(&self) -> bool {
        self.counters.exhausted_queries.set(self.counters.exhausted_queries.get() + 1);
        self.len.map_or(false, |n| self.pos >= n)
    }
}

#[derive(Clone, Copy, Debug, PartialEq, Eq, Serialize, Deserialize)]
pub enum FT {
    F32,
    F32x2,
    F64x4,
    I16x2,
    U8x3,
    I32x1,
    U16x2,
    I24,
}
pub const FTS: [FT; 8] = [FT::F32, FT::F32x2, FT::F64x4, FT::I16x2, FT::U8x3, FT::I32x1, FT::U16x2, FT::I24];

#[derive(Clone, Copy, Debug, PartialEq, Eq, Serialize, Deserialize)]
pub enum LeafKind {
    /// instrumented probe (pull counting)
    Probe,
    /// `signal::from_iter` over a Vec of frames
    FromIter,
    /// `signal::from_interleaved_samples_iter` with `extra` trailing samples (< channels)
    FromInterleaved { extra: usize },
    /// `signal::from_iter` over a NON-fused iterator: `len` frames, `nones` times None, then frames again.
    /// A finite signal ends exactly once: the revived items must never be seen.
    FromIterRevive { nones: u8 },
    /// the same for `from_interleaved_samples_iter`
    FromInterleavedRevive { nones: u8 },
}

/// iterator that yields `len` items, then `nones` x None, then items again forever (not fused)
pub struct Revive<T, G: Fn(u64) -> T> {
    i: u64,
    len: u64,
    nones: u64,
    g: G,
}
impl<T, G: Fn(u64) -> T> Iterator for Revive<T, G> {
    type Item = T;
    fn next(&mut self) -> Option<T> {
        if self.i < self.len {
            self.i += 1;
            Some((self.g)(self.i - 1))
        } else if self.nones > 0 {
            self.nones -= 1;
            None
        } else {
            self.i += 1;
            Some((self.g)(self.i - 1))
        }
    }
}

#[derive(Clone, Debug, Serialize, Deserialize)]
pub enum Node {
    Leaf { len: Option<u64>, kind: LeafKind },
    Map(Box<Node>),
    ScaleAmp(Box<Node>, i8),
    OffsetAmp(Box<Node>, i8),
    ScalePerCh(Box<Node>, i8),
    OffsetPerCh(Box<Node>, i8),
    ClipAmp(Box<Node>, u8),
    Inspect(Box<Node>),
    Delay(Box<Node>, u8),
    /// the first `m` frames are pulled through a throw-away adaptor built on `by_ref()`
    ByRef(Box<Node>, u8),
    ZipMap(Box<Node>, Box<Node>),
    /// second operand: a probe of Signed frames with its own length
    AddAmp(Box<Node>, Option<u64>),
    /// second operand: a probe of Float frames with its own length
    MulAmp(Box<Node>, Option<u64>),
}

/// gains are small dyadic numbers with |g| <= 1 so that nothing ever leaves the range
pub fn gain_of(code: i8) -> f32 {
    [0.0, 1.0, 0.5, -1.0, -0.5, 0.25, -0.25, 0.75][(code as u8 % 8) as usize]
}
/// offsets in units, |u| <= 2
pub fn off_of(code: i8) -> i32 {
    (code as i32).rem_euclid(5) - 2
}

/// test frame types
pub trait TF: Frame + std::fmt::Debug + 'static
where
    Self::Signed: std::fmt::Debug + 'static,
    Self::Float: std::fmt::Debug + 'static,
{
    const FT: FT;
    /// leaf frame k: amplitude (k % 40 + 1) units on channel 0, distinct per channel
    fn leaf(k: u64) -> Self;
    /// frame k of the Signed second operand of add_amp: small amplitudes
    fn sframe(k: u64) -> Self::Signed;
    /// frame k of the Float second operand of mul_amp: gains with |g| <= 1
    fn fframe(k: u64) -> Self::Float;
    fn soff(u: i32) -> <Self::Sample as Sample>::Signed;
    fn gain(g: f32) -> <Self::Sample as Sample>::Float;
    /// per-channel operands of offset_amp_per_channel / scale_amp_per_channel
    fn soff_frame(u: i32) -> Self::Signed;
    fn gain_frame(g: f32) -> Self::Float;
    /// independent reference for clip_amp with threshold `t` units
    fn clip_ref(self, t: u8) -> Self;
    fn thresh(t: u8) -> <Self::Sample as Sample>::Signed;
    fn to_vals(self) -> Vec<Val>;
}

fn clip_val(k: Kind, v: Val, t: Val) -> Val {
    match (v, t) {
        (Val::I(r), Val::I(t)) => {
            let a = r - k.offset();
            Val::I(a.clamp(-t, t) + k.offset())
        }
        (Val::F32(x), Val::F32(t)) => Val::F32(if x > t { t } else if x < -t { -t } else { x }),
        (Val::F64(x), Val::F64(t)) => Val::F64(if x > t { t } else if x < -t { -t } else { x }),
        _ => v,
    }
}

macro_rules! tf_array {
    ($S:ty, $N:literal, $ft:expr, unit: $unit:expr, mk: $mk:expr, mks: $mks:expr, fl: $Fl:ty) => {
        impl TF for [$S; $N] {
            const FT: FT = $ft;
            fn leaf(k: u64) -> Self {
                core::array::from_fn(|c| $mk(((k % 40) as i32 + 1) * if c % 2 == 0 { 1 } else { -1 } + c as i32 / 2))
            }
            fn sframe(k: u64) -> Self::Signed {
                core::array::from_fn(|c| $mks((((k + c as u64) % 7) as i32) - 3))
            }
            fn fframe(k: u64) -> Self::Float {
                core::array::from_fn(|c| gain_of(((k + c as u64) % 8) as i8) as $Fl)
            }
            fn soff(u: i32) -> <$S as Sample>::Signed {
                $mks(u)
            }
            fn gain(g: f32) -> <$S as Sample>::Float {
                g as $Fl
            }
            fn soff_frame(u: i32) -> Self::Signed {
                core::array::from_fn(|c| $mks(if c % 2 == 0 { u } else { -u }))
            }
            fn gain_frame(g: f32) -> Self::Float {
                core::array::from_fn(|c| (if c % 2 == 0 { g } else { g * 0.5 }) as $Fl)
            }
            fn clip_ref(self, t: u8) -> Self {
                let tv = Fmt::to_val(Self::thresh(t));
                core::array::from_fn(|c| <$S as Fmt>::from_val(clip_val(<$S as Fmt>::KIND, Fmt::to_val(self[c]), tv)))
            }
            fn thresh(t: u8) -> <$S as Sample>::Signed {
                $mks(t as i32)
            }
            fn to_vals(self) -> Vec<Val> {
                self.iter().map(|s| Fmt::to_val(*s)).collect()
            }
        }
    };
}
macro_rules! tf_mono {
    ($S:ty, $ft:expr, mk: $mk:expr, mks: $mks:expr, fl: $Fl:ty) => {
        impl TF for $S {
            const FT: FT = $ft;
            fn leaf(k: u64) -> Self {
                $mk((k % 40) as i32 + 1)
            }
            fn sframe(k: u64) -> <$S as Frame>::Signed {
                $mks(((k % 7) as i32) - 3)
            }
            fn fframe(k: u64) -> <$S as Frame>::Float {
                gain_of((k % 8) as i8) as $Fl
            }
            fn soff(u: i32) -> <$S as Sample>::Signed {
                $mks(u)
            }
            fn gain(g: f32) -> <$S as Sample>::Float {
                g as $Fl
            }
            fn soff_frame(u: i32) -> <$S as Frame>::Signed {
                $mks(u)
            }
            fn gain_frame(g: f32) -> <$S as Frame>::Float {
                g as $Fl
            }
            fn clip_ref(self, t: u8) -> Self {
                let tv = Fmt::to_val(Self::thresh(t));
                <$S as Fmt>::from_val(clip_val(<$S as Fmt>::KIND, Fmt::to_val(self), tv))
            }
            fn thresh(t: u8) -> <$S as Sample>::Signed {
                $mks(t as i32)
            }
            fn to_vals(self) -> Vec<Val> {
                vec![Fmt::to_val(self)]
            }
        }
    };
}

const FU: f32 = 1.0 / 1024.0; // float unit
tf_mono!(f32, FT::F32, mk: |a: i32| a as f32 * FU, mks: |a: i32| a as f32 * FU, fl: f32);
tf_array!(f32, 2, FT::F32x2, unit: FU, mk: |a: i32| a as f32 * FU, mks: |a: i32| a as f32 * FU, fl: f32);
tf_array!(f64, 4, FT::F64x4, unit: FU, mk: |a: i32| a as f64 / 1024.0, mks: |a: i32| a as f64 / 1024.0, fl: f64);
tf_array!(i16, 2, FT::I16x2, unit: 64, mk: |a: i32| (a * 64) as i16, mks: |a: i32| (a * 64) as i16, fl: f32);
tf_array!(u8, 3, FT::U8x3, unit: 1, mk: |a: i32| (128 + a) as u8, mks: |a: i32| a as i8, fl: f32);
tf_array!(i32, 1, FT::I32x1, unit: 1024, mk: |a: i32| a * 1024, mks: |a: i32| a * 1024, fl: f32);
tf_array!(u16, 2, FT::U16x2, unit: 16, mk: |a: i32| (32768 + a * 16) as u16, mks: |a: i32| (a * 16) as i16, fl: f32);
tf_mono!(I24, FT::I24, mk: |a: i32| I24::new(a * 256).unwrap(), mks: |a: i32| I24::new(a * 256).unwrap(), fl: f32);

/// what `build` hands back besides the signal: counters of every probe in DFS order, and the
/// call counter of every inspect closure
#[derive(Default)]
pub struct Built {
    pub probes: Vec<Counters>,
    pub inspects: Vec<Rc<Cell<u64>>>,
}

struct ByRefPhase<F: Frame> {
    child: Dyn<F>,
    remaining: u8,
}
impl<F: Frame> Signal for ByRefPhase<F> {
    type Frame = F;
    fn next(&mut self) -> F {
        if self.remaining > 0 {
            self.remaining -= 1;
            // an adaptor built on a borrow of the child, used once, dropped
            let mut ad = self.child.by_ref().delay(0).inspect(|_| {});
            ad.next()
        } else {
            self.child.next()
        }
    }
    fn is_exhausted(&self) -> bool {
        // through a borrow as well (`Signal for &mut S`)
        let r: &Dyn<F> = &self.child;
        r.is_exhausted()
    }
}

pub fn build<F: TF>(n: &Node, b: &mut Built) -> Dyn<F>
where
    F::Signed: std::fmt::Debug + 'static,
    F::Float: std::fmt::Debug + 'static,
{
    match n {
        Node::Leaf { len, kind } => match kind {
            LeafKind::Probe => {
                let c = Counters::new();
                b.probes.push(c.clone());
                erase(FnProbe::new(*len, F::leaf as fn(u64) -> F, c))
            }
            LeafKind::FromIter => {
                let l = len.expect("iterator leaves are finite");
                let frames: Vec<F> = (0..l).map(F::leaf).collect();
                erase(signal::from_iter(frames.into_iter()))
            }
            LeafKind::FromInterleaved { extra } => {
                let l = len.expect("iterator leaves are finite");
                let mut samples: Vec<F::Sample> = (0..l).flat_map(|k| F::leaf(k).channels()).collect();
                // a trailing incomplete frame (dropped by the signal)
                let tail: Vec<F::Sample> = F::leaf(l).channels().take((*extra).min(F::CHANNELS - 1)).collect();
                samples.extend(tail);
                erase(signal::from_interleaved_samples_iter::<_, F>(samples.into_iter()))
            }
            LeafKind::FromIterRevive { nones } => {
                let l = len.expect("iterator leaves are finite");
                erase(signal::from_iter(Revive { i: 0, len: l, nones: (*nones).max(1) as u64, g: |k| F::leaf(k) }))
            }
            LeafKind::FromInterleavedRevive { nones } => {
                let l = len.expect("iterator leaves are finite");
                let c = F::CHANNELS as u64;
                let it = Revive { i: 0, len: l * c, nones: (*nones).max(1) as u64, g: move |k: u64| F::leaf(k / c).channels().nth((k % c) as usize).unwrap() };
                erase(signal::from_interleaved_samples_iter::<_, F>(it))
            }
        },
        Node::Map(c) => {
            // the closure counts its calls (registered like an inspect closure, in pre-order)
            let cnt = Rc::new(Cell::new(0u64));
            b.inspects.push(cnt.clone());
            erase(build::<F>(c, b).map(move |f: F| {
                cnt.set(cnt.get() + 1);
                f.scale_amp(F::gain(-1.0))
            }))
        }
        Node::ScaleAmp(c, g) => erase(build::<F>(c, b).scale_amp(F::gain(gain_of(*g)))),
        Node::OffsetAmp(c, o) => erase(build::<F>(c, b).offset_amp(F::soff(off_of(*o)))),
        Node::ScalePerCh(c, g) => erase(build::<F>(c, b).scale_amp_per_channel(F::gain_frame(gain_of(*g)))),
        Node::OffsetPerCh(c, o) => erase(build::<F>(c, b).offset_amp_per_channel(F::soff_frame(off_of(*o)))),
        Node::ClipAmp(c, t) => erase(build::<F>(c, b).clip_amp(F::thresh(*t))),
        Node::Inspect(c) => {
            let cnt = Rc::new(Cell::new(0u64));
            b.inspects.push(cnt.clone());
            erase(build::<F>(c, b).inspect(move |_f: &F| cnt.set(cnt.get() + 1)))
        }
        Node::Delay(c, k) => erase(build::<F>(c, b).delay(*k as usize)),
        Node::ByRef(c, m) => erase(ByRefPhase { child: build::<F>(c, b), remaining: *m }),
        Node::ZipMap(x, y) => {
            let sx = build::<F>(x, b);
            let sy = build::<F>(y, b);
            erase(sx.zip_map(sy, |p: F, q: F| p.zip_map(q, |a, c| if a > c { a } else { c })))
        }
        Node::AddAmp(c, blen) => {
            let sc = build::<F>(c, b);
            let cn = Counters::new();
            b.probes.push(cn.clone());
            erase(sc.add_amp(FnProbe::new(*blen, F::sframe as fn(u64) -> F::Signed, cn)))
        }
        Node::MulAmp(c, blen) => {
            let sc = build::<F>(c, b);
            let cn = Counters::new();
            b.probes.push(cn.clone());
            erase(sc.mul_amp(FnProbe::new(*blen, F::fframe as fn(u64) -> F::Float, cn)))
        }
    }
}

/// model: frame k of the node, as the composition of pointwise functions
pub fn model<F: TF>(n: &Node, k: u64) -> F
where
    F::Signed: std::fmt::Debug + 'static,
    F::Float: std::fmt::Debug + 'static,
{
    match n {
        Node::Leaf { len, .. } => match len {
            Some(l) if k >= *l => F::EQUILIBRIUM,
            _ => F::leaf(k),
        },
        Node::Map(c) => model::<F>(c, k).scale_amp(F::gain(-1.0)),
        Node::ScaleAmp(c, g) => model::<F>(c, k).scale_amp(F::gain(gain_of(*g))),
        Node::OffsetAmp(c, o) => model::<F>(c, k).offset_amp(F::soff(off_of(*o))),
        Node::ScalePerCh(c, g) => model::<F>(c, k).mul_amp(F::gain_frame(gain_of(*g))),
        Node::OffsetPerCh(c, o) => model::<F>(c, k).add_amp(F::soff_frame(off_of(*o))),
        Node::ClipAmp(c, t) => model::<F>(c, k).clip_ref(*t),
        Node::Inspect(c) | Node::ByRef(c, _) => model::<F>(c, k),
        Node::Delay(c, d) => {
            if k < *d as u64 {
                F::EQUILIBRIUM
            } else {
                model::<F>(c, k - *d as u64)
            }
        }
        Node::ZipMap(x, y) => model::<F>(x, k).zip_map(model::<F>(y, k), |a, c| if a > c { a } else { c }),
        Node::AddAmp(c, blen) => {
            let bf = match blen {
                Some(l) if k >= *l => <F::Signed as Frame>::EQUILIBRIUM,
                _ => F::sframe(k),
            };
            model::<F>(c, k).add_amp(bf)
        }
        Node::MulAmp(c, blen) => {
            let bf = match blen {
                Some(l) if k >= *l => <F::Float as Frame>::EQUILIBRIUM,
                _ => F::fframe(k),
            };
            model::<F>(c, k).mul_amp(bf)
        }
    }
}

/// expected pull count of every probe (same DFS order as `build`) after `outer` pulls of the root
pub fn expected_pulls(n: &Node, outer: u64, out: &mut Vec<u64>) {
    match n {
        Node::Leaf { kind, .. } => {
            if *kind == LeafKind::Probe {
                out.push(outer)
            }
        }
        Node::Map(c) | Node::ScaleAmp(c, _) | Node::OffsetAmp(c, _) | Node::ScalePerCh(c, _) | Node::OffsetPerCh(c, _) | Node::ClipAmp(c, _) | Node::Inspect(c) | Node::ByRef(c, _) => {
            expected_pulls(c, outer, out)
        }
        Node::Delay(c, d) => expected_pulls(c, outer.saturating_sub(*d as u64), out),
        Node::ZipMap(x, y) => {
            expected_pulls(x, outer, out);
            expected_pulls(y, outer, out);
        }
        Node::AddAmp(c, _) | Node::MulAmp(c, _) => {
            expected_pulls(c, outer, out);
            out.push(outer);
        }
    }
}

/// number of frames before the node reports exhaustion (`None` = never)
pub fn model_len(n: &Node) -> Option<u64> {
    fn min_opt(a: Option<u64>, b: Option<u64>) -> Option<u64> {
        match (a, b) {
            (Some(x), Some(y)) => Some(x.min(y)),
            (x, None) => x,
            (None, y) => y,
        }
    }
    match n {
        Node::Leaf { len, .. } => *len,
        Node::Map(c) | Node::ScaleAmp(c, _) | Node::OffsetAmp(c, _) | Node::ScalePerCh(c, _) | Node::OffsetPerCh(c, _) | Node::ClipAmp(c, _) | Node::Inspect(c) | Node::ByRef(c, _) => model_len(c),
        Node::Delay(c, d) => model_len(c).map(|l| l + *d as u64),
        Node::ZipMap(x, y) => min_opt(model_len(x), model_len(y)),
        Node::AddAmp(c, bl) | Node::MulAmp(c, bl) => min_opt(model_len(c), *bl),
    }
}

pub fn count_nodes(n: &Node) -> (usize, bool, bool, bool) {
    // (adaptors, has binary, has by_ref, has delay > 0)
    match n {
        Node::Leaf { .. } => (0, false, false, false),
        Node::Map(c) | Node::ScaleAmp(c, _) | Node::OffsetAmp(c, _) | Node::ScalePerCh(c, _) | Node::OffsetPerCh(c, _) | Node::ClipAmp(c, _) | Node::Inspect(c) => {
            let (a, b, r, d) = count_nodes(c);
            (a + 1, b, r, d)
        }
        Node::ByRef(c, m) => {
            let (a, b, _, d) = count_nodes(c);
            (a + 1, b, *m > 0, d)
        }
        Node::Delay(c, k) => {
            let (a, b, r, d) = count_nodes(c);
            (a + 1, b, r, d || *k > 0)
        }
        Node::ZipMap(x, y) => {
            let (a1, _, r1, d1) = count_nodes(x);
            let (a2, _, r2, d2) = count_nodes(y);
            (a1 + a2 + 1, true, r1 || r2, d1 || d2)
        }
        Node::AddAmp(c, _) | Node::MulAmp(c, _) => {
            let (a, _, r, d) = count_nodes(c);
            (a + 1, true, r, d)
        }
    }
}

/// replace every leaf kind (C04 wants probes, C05 wants iterator-backed sources)
pub fn map_leaves(n: &mut Node, f: &mut dyn FnMut(&mut Option<u64>, &mut LeafKind)) {
    match n {
        Node::Leaf { len, kind } => f(len, kind),
        Node::Map(c) | Node::ScaleAmp(c, _) | Node::OffsetAmp(c, _) | Node::ScalePerCh(c, _) | Node::OffsetPerCh(c, _) | Node::ClipAmp(c, _) | Node::Inspect(c) | Node::ByRef(c, _) | Node::Delay(c, _) | Node::AddAmp(c, _) | Node::MulAmp(c, _) => {
            map_leaves(c, f)
        }
        Node::ZipMap(x, y) => {
            map_leaves(x, f);
            map_leaves(y, f);
        }
    }
}

/// dispatch on the frame type
#[macro_export]
macro_rules! with_ft {
    ($ft:expr, $f:ident ( $($arg:expr),* )) => {
        match $ft {
            $crate::tree::FT::F32 => $f::<f32>($($arg),*),
            $crate::tree::FT::F32x2 => $f::<[f32; 2]>($($arg),*),
            $crate::tree::FT::F64x4 => $f::<[f64; 4]>($($arg),*),
            $crate::tree::FT::I16x2 => $f::<[i16; 2]>($($arg),*),
            $crate::tree::FT::U8x3 => $f::<[u8; 3]>($($arg),*),
            $crate::tree::FT::I32x1 => $f::<[i32; 1]>($($arg),*),
            $crate::tree::FT::U16x2 => $f::<[u16; 2]>($($arg),*),
            $crate::tree::FT::I24 => $f::<dasp_sample::I24>($($arg),*),
        }
    };
}
