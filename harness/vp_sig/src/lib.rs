//! vp_sig — signal-level checks: C04, C05, C08, C11 (std half), C17, C18, C19, C20.
pub mod c04;
pub mod c05;
pub mod c08;
pub mod c11;
pub mod c11_core;
pub mod c17;
pub mod c18;
pub mod c19;
pub mod c20;
pub mod fuzzdec;
pub mod tree;
