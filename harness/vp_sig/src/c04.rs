//! C04 — signal adaptors are pointwise, lock-step, one source frame per output frame.

use crate::tree::*;
use dasp_signal::Signal;
use proptest::prelude::*;
use serde::{Deserialize, Serialize};
use vp_core::{ensure, CheckResult, Ctx, Stats};

#[derive(Clone, Debug, Serialize, Deserialize)]
pub struct Case {
    pub ft: FT,
    pub tree: Node,
    pub pulls: u64,
}

fn run_typed<F: TF>(c: &Case, st: &mut Stats) -> CheckResult
where
    F::Signed: std::fmt::Debug + 'static,
    F::Float: std::fmt::Debug + 'static,
{
    let mut b = Built::default();
    let mut sig = build::<F>(&c.tree, &mut b);
    let (adaptors, has_bin, has_byref, has_delay) = count_nodes(&c.tree);
    let intish = !matches!(c.ft, FT::F32 | FT::F32x2 | FT::F64x4);
    st.nt(adaptors >= 2 || intish || has_delay || has_byref);
    st.class_if(has_bin, "binary node present");
    st.class_if(has_byref, "by_ref present");
    st.class_if(has_delay, "delay with k > 0 present");
    st.class_if(intish, "integer or unsigned frame type");
    let mut exp_pulls = Vec::new();
    // exhaustion is C05's subject; it is also asserted here because a wrong report changes how many frames a consumer pulls
    let len = model_len(&c.tree);
    for k in 0..c.pulls {
        let (ex, exp_ex) = (sig.is_exhausted(), len.map_or(false, |l| k >= l));
        ensure!(ex == exp_ex, "before frame {}: is_exhausted() = {}, but the shortest source (plus leading delays) ends after {:?} frames", k, ex, len);
        let got = sig.next();
        let exp = model::<F>(&c.tree, k);
        ensure!(
            got == exp,
            "frame {}: adaptor tree yielded {:?}, the composition of the pointwise functions gives {:?}",
            k, got, exp
        );
        exp_pulls.clear();
        expected_pulls(&c.tree, k + 1, &mut exp_pulls);
        ensure!(exp_pulls.len() == b.probes.len(), "harness: probe bookkeeping mismatch");
        for (i, (p, e)) in b.probes.iter().zip(&exp_pulls).enumerate() {
            ensure!(
                p.pulls() == *e,
                "after output frame {}: source #{} (depth-first order) has been pulled {} times, expected exactly {} (one per output frame, none during leading delay silence)",
                k, i, p.pulls(), e
            );
        }
    }
    let mut exp_ins = Vec::new();
    expected_inspects(&c.tree, c.pulls, &mut exp_ins);
    ensure!(exp_ins.len() == b.inspects.len(), "harness: inspect bookkeeping mismatch");
    for (i, (cnt, e)) in b.inspects.iter().zip(&exp_ins).enumerate() {
        ensure!(cnt.get() == *e, "inspect / map closure #{} (pre-order) was called {} times, expected {} (once per frame that reached it)", i, cnt.get(), e);
    }
    Ok(())
}

/// expected call count of every inspect closure (pre-order, as `build` registers them)
fn expected_inspects(n: &Node, outer: u64, out: &mut Vec<u64>) {
    match n {
        Node::Leaf { .. } => {}
        Node::Inspect(c) | Node::Map(c) => {
            out.push(outer);
            expected_inspects(c, outer, out)
        }
        Node::Delay(c, d) => expected_inspects(c, outer.saturating_sub(*d as u64), out),
        Node::ScaleAmp(c, _) | Node::OffsetAmp(c, _) | Node::ScalePerCh(c, _) | Node::OffsetPerCh(c, _) | Node::ClipAmp(c, _) | Node::ByRef(c, _) | Node::AddAmp(c, _) | Node::MulAmp(c, _) => {
            expected_inspects(c, outer, out)
        }
        Node::ZipMap(x, y) => {
            expected_inspects(x, outer, out);
            expected_inspects(y, outer, out);
        }
    }
}

pub fn check(c: &Case, st: &mut Stats) -> CheckResult {
    crate::with_ft!(c.ft, run_typed(c, st))
}

pub fn leaf(kind_probe_only: bool) -> BoxedStrategy<Node> {
    let len = prop_oneof![2 => (0u64..40).prop_map(Some), 1 => Just(None)];
    if kind_probe_only {
        len.prop_map(|len| Node::Leaf { len, kind: LeafKind::Probe }).boxed()
    } else {
        (0u64..40, 0usize..5, 0usize..4)
            .prop_map(|(l, k, extra)| Node::Leaf {
                len: Some(l),
                kind: match k {
                    0 => LeafKind::Probe,
                    1 => LeafKind::FromIter,
                    2 => LeafKind::FromInterleaved { extra },
                    3 => LeafKind::FromIterRevive { nones: 1 + extra as u8 },
                    _ => LeafKind::FromInterleavedRevive { nones: 1 + extra as u8 },
                },
            })
            .boxed()
    }
}

pub fn tree(depth: u32, probe_only: bool) -> BoxedStrategy<Node> {
    let blen = prop_oneof![2 => (0u64..40).prop_map(Some), 1 => Just(None)];
    leaf(probe_only)
        .prop_recursive(depth, 24, 2, move |inner| {
            let blen = blen.clone();
            prop_oneof![
                1 => inner.clone().prop_map(|c| Node::Map(Box::new(c))),
                2 => (inner.clone(), any::<i8>()).prop_map(|(c, g)| Node::ScaleAmp(Box::new(c), g)),
                2 => (inner.clone(), any::<i8>()).prop_map(|(c, o)| Node::OffsetAmp(Box::new(c), o)),
                1 => (inner.clone(), any::<i8>()).prop_map(|(c, g)| Node::ScalePerCh(Box::new(c), g)),
                1 => (inner.clone(), any::<i8>()).prop_map(|(c, o)| Node::OffsetPerCh(Box::new(c), o)),
                2 => (inner.clone(), 0u8..50).prop_map(|(c, t)| Node::ClipAmp(Box::new(c), t)),
                1 => inner.clone().prop_map(|c| Node::Inspect(Box::new(c))),
                2 => (inner.clone(), 0u8..5).prop_map(|(c, k)| Node::Delay(Box::new(c), k)),
                2 => (inner.clone(), 0u8..12).prop_map(|(c, m)| Node::ByRef(Box::new(c), m)),
                2 => (inner.clone(), inner.clone()).prop_map(|(x, y)| Node::ZipMap(Box::new(x), Box::new(y))),
                2 => (inner.clone(), blen.clone()).prop_map(|(c, l)| Node::AddAmp(Box::new(c), l)),
                2 => (inner, blen).prop_map(|(c, l)| Node::MulAmp(Box::new(c), l)),
            ]
        })
        .boxed()
}

// ---------------------------------------------------------------- clip_amp over the full range

/// clip_amp is the one adaptor with arithmetic of its own (negation, comparison): drive it with
/// full-range values incl. MIN / MAX of every format
#[derive(Clone, Debug, Serialize, Deserialize)]
pub struct ClipCase {
    pub kind: vp_core::fmt::Kind,
    /// threshold in the signed companion (raw / bits), >= 0
    pub thresh: i128,
    pub vals: Vec<i128>,
}

fn clip_dec(k: vp_core::fmt::Kind, e: i128) -> vp_core::fmt::Val {
    use vp_core::fmt::{Kind, Val};
    match k {
        Kind::Int { .. } => Val::I(e),
        Kind::F32 => Val::F32(f32::from_bits(e as u32)),
        Kind::F64 => Val::F64(f64::from_bits(e as u64)),
    }
}

fn clip_typed<S>(c: &ClipCase, st: &mut Stats) -> CheckResult
where
    S: vp_core::fmt::Fmt + dasp_frame::Frame<Sample = S>,
    <S as dasp_sample::Sample>::Signed: vp_core::fmt::Fmt,
{
    use vp_core::fmt::{self, Fmt, Val};
    let k = S::KIND;
    let sk = k.signed_companion();
    let t = clip_dec(sk, c.thresh);
    let frames: Vec<S> = c.vals.iter().map(|e| S::from_val(clip_dec(k, *e))).collect();
    let mut sig = dasp_signal::from_iter(frames.clone()).clip_amp(<<S as dasp_sample::Sample>::Signed as Fmt>::from_val(t));
    st.nt(true);
    st.class("clip_amp over the full value range");
    for (i, e) in c.vals.iter().enumerate() {
        let v = clip_dec(k, *e);
        let sg = fmt::conv(k, v, sk).ok_or("bad case")?;
        let clipped = match (sg, t) {
            (Val::I(a), Val::I(t)) => Val::I(a.clamp(-t, t)),
            (Val::F32(a), Val::F32(t)) => Val::F32(if a > t { t } else if a < -t { -t } else { a }),
            (Val::F64(a), Val::F64(t)) => Val::F64(if a > t { t } else if a < -t { -t } else { a }),
            _ => return Err("bad case: threshold variant".into()),
        };
        let exp = fmt::conv(sk, clipped, k).ok_or("bad case")?;
        let got = Fmt::to_val(sig.next());
        let same = match (got, exp) {
            (Val::I(a), Val::I(b)) => a == b,
            (Val::F32(a), Val::F32(b)) => a == b,
            (Val::F64(a), Val::F64(b)) => a == b,
            _ => false,
        };
        ensure!(same, "{}: clip_amp({:?}) of frame {} = {:?} gives {:?}, the signed amplitude limited to [-t, t] is {:?}", k.name(), t, i, v, got, exp);
    }
    Ok(())
}

pub fn check_clip(c: &ClipCase, st: &mut Stats) -> CheckResult {
    use dasp_sample::{I24, I48, U24, U48};
    use vp_core::fmt::Fmt;
    macro_rules! go { ($($T:ty),*) => { $( if c.kind == <$T as Fmt>::KIND { return clip_typed::<$T>(c, st); } )* }; }
    go!(i8, i16, I24, i32, I48, i64, u8, u16, U24, u32, U48, u64, f32, f64);
    Err("bad case: unknown format".into())
}

fn clip_cases(seed: u64) -> Vec<ClipCase> {
    use vp_core::fmt::{boundary_raws, Kind, INT_KINDS};
    let mut out = Vec::new();
    let mut s = seed | 1;
    let mut xs = move || {
        s ^= s << 13;
        s ^= s >> 7;
        s ^= s << 17;
        s
    };
    for &k in &INT_KINDS {
        let sk = k.signed_companion();
        let mut vals = boundary_raws(k);
        for _ in 0..40 {
            let span = (k.max_raw() - k.min_raw() + 1) as u128;
            vals.push(k.min_raw() + (((xs() as u128) << 64 | xs() as u128) % span) as i128);
        }
        let mut ts: Vec<i128> = vec![0, 1, 2, sk.max_raw(), sk.max_raw() - 1, sk.max_raw() / 2, sk.max_raw() / 2 + 1];
        for b in 1..(sk.bits() - 1) {
            ts.push(1i128 << b);
        }
        for _ in 0..8 {
            ts.push(((xs() as u128 % (sk.max_raw() as u128 + 1)) as i128).max(0));
        }
        for t in ts {
            out.push(ClipCase { kind: k, thresh: t, vals: vals.clone() });
        }
    }
    for (k, mk) in [(Kind::F32, 0u8), (Kind::F64, 1u8)] {
        let enc = |x: f64| if mk == 0 { (x as f32).to_bits() as i128 } else { x.to_bits() as i128 };
        let vals: Vec<i128> = [0.0, -0.0, 1.0, -1.0, 0.5, -0.5, 0.999, -0.999, 3.5, -3.5, 1e-30, -1e-30, 1e30, -1e30].iter().map(|x| enc(*x)).collect();
        for t in [0.0, 0.25, 0.5, 1.0, 2.0, 1e-20, 1e20] {
            out.push(ClipCase { kind: k, thresh: enc(t), vals: vals.clone() });
        }
    }
    out
}

// ---------------------------------------------------------------- scaling / offsetting adaptors over the full range

/// The trees above keep amplitudes small so that no result leaves the range; here the gain and offset adaptors are
/// driven with full-range values of every format (two channels) and gains in [0, 1] / zero offsets, and compared with
/// the Frame operation applied to the same frame (C03's subject).
#[derive(Clone, Debug, Serialize, Deserialize)]
pub struct WideCase {
    pub kind: vp_core::fmt::Kind,
    /// raw values / bit patterns, consumed in pairs (two channels)
    pub vals: Vec<i128>,
    /// gains for channel 0 / 1 as f64 (converted to the format's Float)
    pub gains: [f64; 2],
}

macro_rules! wide_typed {
    ($T:ty, $c:expr, $st:expr) => {{
        #[allow(unused_imports)]
        use dasp_frame::Frame;
        use vp_core::fmt::{Fmt, Kind, Val};
        type S = $T;
        let (c, st): (&WideCase, &mut Stats) = ($c, $st);
        let r: CheckResult = (|| {
        let k = <S as Fmt>::KIND;
    let fl = |g: f64| -> <S as dasp_sample::Sample>::Float {
        match k.float_companion() {
            Kind::F32 => <<S as dasp_sample::Sample>::Float as Fmt>::from_val(Val::F32(g as f32)),
            _ => <<S as dasp_sample::Sample>::Float as Fmt>::from_val(Val::F64(g)),
        }
    };
    ensure!(c.gains.iter().all(|g| *g >= 0.0 && *g <= 1.0), "bad case: gain outside [0, 1]");
    let (g0, g1) = (fl(c.gains[0]), fl(c.gains[1]));
    let frames: Vec<[S; 2]> = c.vals.chunks(2).filter(|p| p.len() == 2).map(|p| [<S as Fmt>::from_val(clip_dec(k, p[0])), <S as Fmt>::from_val(clip_dec(k, p[1]))]).collect();
    let n = frames.len();
    let src = || dasp_signal::from_iter(frames.clone());
    let zero_s = <<S as dasp_sample::Sample>::Signed as dasp_sample::Sample>::EQUILIBRIUM;
    let a: Vec<[S; 2]> = src().scale_amp(g0).take(n).collect();
    let b: Vec<[S; 2]> = src().scale_amp_per_channel([g0, g1]).take(n).collect();
    let m: Vec<[S; 2]> = src().mul_amp(dasp_signal::gen(move || [g0, g1])).take(n).collect();
    let o: Vec<[S; 2]> = src().offset_amp(zero_s).take(n).collect();
    let p: Vec<[S; 2]> = src().offset_amp_per_channel([zero_s, zero_s]).take(n).collect();
    let d: Vec<[S; 2]> = src().add_amp(dasp_signal::equilibrium::<[<S as dasp_sample::Sample>::Signed; 2]>()).take(n).collect();
    let same = |x: [S; 2], y: [S; 2]| (0..2).all(|ch| match (x[ch].to_val(), y[ch].to_val()) {
        (Val::I(a), Val::I(b)) => a == b,
        (Val::F32(a), Val::F32(b)) => a.to_bits() == b.to_bits(),
        (Val::F64(a), Val::F64(b)) => a.to_bits() == b.to_bits(),
        _ => false,
    });
    st.nt(true);
    st.class("gain / offset adaptors over the full value range");
    for (i, f) in frames.iter().enumerate() {
        let checks: [(&str, [S; 2], [S; 2]); 6] = [
            ("scale_amp", a[i], f.scale_amp(g0)),
            ("scale_amp_per_channel", b[i], f.mul_amp([g0, g1])),
            ("mul_amp", m[i], f.mul_amp([g0, g1])),
            ("offset_amp(0)", o[i], f.offset_amp(zero_s)),
            ("offset_amp_per_channel([0, 0])", p[i], f.add_amp([zero_s, zero_s])),
            ("add_amp(equilibrium)", d[i], f.add_amp([zero_s, zero_s])),
        ];
        for (name, got, exp) in checks {
            ensure!(same(got, exp), "[{}; 2] frame {} = {:?}: {} with gains {:?} yields {:?}, the frame operation gives {:?}", k.name(), i, f, name, c.gains, got, exp);
        }
        // identities that do not go through the library's own frame operations (integer formats, amplitudes small enough
        // to be exact in every float companion): offset 0 leaves the sample alone; gain 1 leaves it alone; gain 0 gives
        // the amplitude-0 value; gain 0.5 halves an even amplitude exactly
        if let Kind::Int { .. } = k {
            for ch in 0..2 {
                let raw = match f[ch].to_val() {
                    Val::I(r) => r,
                    _ => unreachable!(),
                };
                let amp = raw - k.eq_raw();
                let as_raw = |x: S| match x.to_val() {
                    Val::I(r) => r,
                    _ => unreachable!(),
                };
                ensure!(as_raw(o[i][ch]) == raw && as_raw(p[i][ch]) == raw && as_raw(d[i][ch]) == raw, "[{}; 2] frame {} channel {}: offsetting {} by zero (offset_amp / offset_amp_per_channel / add_amp of equilibrium) yields {} / {} / {}", k.name(), i, ch, raw, as_raw(o[i][ch]), as_raw(p[i][ch]), as_raw(d[i][ch]));
                if amp.abs() < (1 << 22) {
                    let g = c.gains[ch];
                    let exp = if g == 1.0 { Some(raw) } else if g == 0.0 { Some(k.eq_raw()) } else if g == 0.5 && amp % 2 == 0 { Some(k.eq_raw() + amp / 2) } else { None };
                    if let Some(e) = exp {
                        ensure!(as_raw(b[i][ch]) == e && as_raw(m[i][ch]) == e, "[{}; 2] frame {} channel {}: amplitude {} scaled by {} (scale_amp_per_channel / mul_amp) yields raw {} / {}, expected raw {} (amplitude {})", k.name(), i, ch, amp, g, as_raw(b[i][ch]), as_raw(m[i][ch]), e, e - k.eq_raw());
                    }
                    let g0v = c.gains[0];
                    let exp0 = if g0v == 1.0 { Some(raw) } else if g0v == 0.0 { Some(k.eq_raw()) } else if g0v == 0.5 && amp % 2 == 0 { Some(k.eq_raw() + amp / 2) } else { None };
                    if let Some(e) = exp0 {
                        ensure!(as_raw(a[i][ch]) == e, "[{}; 2] frame {} channel {}: amplitude {} under scale_amp({}) yields raw {}, expected raw {}", k.name(), i, ch, amp, g0v, as_raw(a[i][ch]), e);
                    }
                } else {
                    // amplitudes beyond the float companion's mantissa: a gain of exactly 1 returns the sample to within the
                    // companion's precision at that magnitude (and never leaves the range or changes sign), a gain of 0 the
                    // amplitude-0 value
                    let mant: u32 = if k.float_companion() == Kind::F32 { 24 } else { 53 };
                    let slack: i128 = 1i128 << (k.bits().saturating_sub(mant) + 1);
                    for (name, out, g) in [("scale_amp", a[i][ch], c.gains[0]), ("scale_amp_per_channel", b[i][ch], c.gains[ch]), ("mul_amp", m[i][ch], c.gains[ch])] {
                        let r = as_raw(out);
                        if g == 1.0 {
                            ensure!((r - raw).abs() <= slack, "[{}; 2] frame {} channel {}: raw {} under {} with gain 1 yields raw {} (more than {} away)", k.name(), i, ch, raw, name, r, slack);
                        } else if g == 0.0 {
                            ensure!(r == k.eq_raw(), "[{}; 2] frame {} channel {}: raw {} under {} with gain 0 yields raw {}, expected the amplitude-0 value {}", k.name(), i, ch, raw, name, r, k.eq_raw());
                        }
                    }
                }
            }
        }
    }
    Ok(())
        })();
        r
    }};
}

pub fn check_wide(c: &WideCase, st: &mut Stats) -> CheckResult {
    use dasp_sample::{I24, I48, U24, U48};
    use vp_core::fmt::Fmt;
    macro_rules! go { ($($T:ty),*) => { $( if c.kind == <$T as Fmt>::KIND { return wide_typed!($T, c, st); } )* }; }
    go!(i8, i16, I24, i32, I48, i64, u8, u16, U24, u32, U48, u64, f32, f64);
    Err("bad case: unknown format".into())
}

fn wide_cases(seed: u64) -> Vec<WideCase> {
    use vp_core::fmt::{boundary_raws, Kind, INT_KINDS};
    let mut out = Vec::new();
    let mut s = seed | 1;
    let mut xs = move || {
        s ^= s << 13;
        s ^= s >> 7;
        s ^= s << 17;
        s
    };
    let gains: [[f64; 2]; 7] = [[1.0, 1.0], [1.0, 0.5], [0.5, 1.0], [0.0, 1.0], [0.25, 0.75], [0.999, 0.001], [0.0, 0.0]];
    for &k in &INT_KINDS {
        let mut vals = boundary_raws(k);
        for _ in 0..60 {
            let span = (k.max_raw() - k.min_raw() + 1) as u128;
            vals.push(k.min_raw() + (((xs() as u128) << 64 | xs() as u128) % span) as i128);
        }
        // small amplitudes on both sides of equilibrium (exact in every float companion)
        for a in [1i128, 2, 3, 50, 100, 101, 1000, 4094, 65_536, 1_000_000] {
            for sgn in [-1i128, 1] {
                let r = k.eq_raw() + sgn * a;
                if k.in_range_raw(r) {
                    vals.push(r);
                }
            }
        }
        // odd values just above a power of two: not representable in a narrower float
        for b in 8..k.bits() - 1 {
            vals.push(k.eq_raw() + (1i128 << b) + 1);
            vals.push(k.eq_raw() - (1i128 << b) - 1);
        }
        if vals.len() % 2 == 1 {
            vals.push(k.eq_raw());
        }
        for g in gains {
            out.push(WideCase { kind: k, vals: vals.clone(), gains: g });
        }
    }
    for (k, mk) in [(Kind::F32, 0u8), (Kind::F64, 1u8)] {
        let enc = |x: f64| if mk == 0 { (x as f32).to_bits() as i128 } else { x.to_bits() as i128 };
        let vals: Vec<i128> = [0.0, -0.0, 1.0, -1.0, 0.5, -0.5, 0.999, -0.999, 3.5, -3.5, 1e-30, -1e-30, 1e30, -1e30, 0.1, 1.0 / 3.0].iter().map(|x| enc(*x)).collect();
        for g in gains {
            out.push(WideCase { kind: k, vals: vals.clone(), gains: g });
        }
    }
    out
}

pub fn run(ctx: &mut Ctx) {
    ctx.set_rule(
        "cases are (frame type out of 8, adaptor tree, number of frames pulled); trees are generated recursively to depth 4 (thorough 7) from probe leaves (finite 0..40 frames or infinite) and the \
         adaptors map, scale_amp, offset_amp, the per-channel variants, clip_amp, inspect, delay(k), by_ref (first m frames pulled through a throw-away adaptor built on a borrow), zip_map, add_amp, mul_amp; \
         amplitudes, offsets and gains are small by construction so no result leaves the range; non-trivial: >= 2 adaptors, or an integer/unsigned frame type, or a delay / by_ref node",
    );
    ctx.assume("frame k must equal the dasp Frame operation applied to frame k of the child model(s) (the Frame operations themselves are C03's subject); clip_amp is compared with an independent clamp(amp, -t, t); the gain / offset adaptors are additionally driven with full-range values of all 14 formats (gains in [0, 1], zero offsets) and compared with the Frame operation on the same frame; every probe's pull counter is compared after every output frame");
    for c in ["binary node present", "by_ref present", "delay with k > 0 present", "integer or unsigned frame type"] {
        ctx.require_class(c);
    }
    let depth = ctx.pick(4u32, 7);
    let strat = (0usize..8, tree(depth, true), 0u64..48).prop_map(|(f, tree, pulls)| Case { ft: FTS[f], tree, pulls });
    ctx.prop("random-trees", ctx.pick(100_000, 600_000), strat, check);

    // every single adaptor and every pair of unary adaptors over every frame type (small exhaustive catalogue)
    let unary: Vec<fn(Node) -> Node> = vec![
        |c| Node::Map(Box::new(c)),
        |c| Node::ScaleAmp(Box::new(c), 2),
        |c| Node::OffsetAmp(Box::new(c), 4),
        |c| Node::ScalePerCh(Box::new(c), 3),
        |c| Node::OffsetPerCh(Box::new(c), 0),
        |c| Node::ClipAmp(Box::new(c), 7),
        |c| Node::Inspect(Box::new(c)),
        |c| Node::Delay(Box::new(c), 2),
        |c| Node::ByRef(Box::new(c), 3),
        |c| Node::AddAmp(Box::new(c), Some(5)),
        |c| Node::MulAmp(Box::new(c), None),
        |c| Node::ZipMap(Box::new(c), Box::new(Node::Leaf { len: Some(4), kind: LeafKind::Probe })),
    ];
    let mut cases = Vec::new();
    for &ft in &FTS {
        for len in [Some(0u64), Some(1), Some(6), None] {
            let l = || Node::Leaf { len, kind: LeafKind::Probe };
            for a in &unary {
                cases.push(Case { ft, tree: a(l()), pulls: 10 });
                for b2 in &unary {
                    cases.push(Case { ft, tree: b2(a(l())), pulls: 10 });
                }
            }
        }
    }
    ctx.enumerate("catalogue-single-and-pairs", true, cases.into_iter(), check);

    // clip_amp on full-range values (MIN, MAX, equilibrium, powers of two) of every format x boundary thresholds
    ctx.require_class("clip_amp over the full value range");
    let cc = clip_cases(ctx.sub_seed("clip"));
    ctx.enumerate("clip-amp-full-range", false, cc.into_iter(), check_clip);
    // gain / offset adaptors on full-range values of every format (results stay in range: gains in [0, 1], zero offsets)
    ctx.require_class("gain / offset adaptors over the full value range");
    let wc = wide_cases(ctx.sub_seed("wide"));
    ctx.enumerate("gain-offset-adaptors-full-range", false, wc.into_iter(), check_wide);
    // delay(k) for k beyond 32 bits: the first frames are silence and the source is not pulled for any of them
    #[derive(Clone, Debug, Serialize, Deserialize)]
    struct LongDelay {
        k: u64,
        stereo: bool,
    }
    let cases: Vec<LongDelay> = [1u64 << 32, (1 << 32) + 3, 1 << 33, (1 << 40) + 1, u64::MAX].iter().flat_map(|&k| [LongDelay { k, stereo: false }, LongDelay { k, stereo: true }]).collect();
    ctx.enumerate("delay-longer-than-2^32-frames", true, cases.into_iter(), |c: &LongDelay, st: &mut Stats| {
        st.nt(true);
        ensure!(c.k <= usize::MAX as u64, "bad case: delay does not fit usize");
        let pulls = std::rc::Rc::new(std::cell::Cell::new(0u64));
        let p = pulls.clone();
        macro_rules! go {
            ($frame:expr, $eq:expr) => {{
                let mut d = dasp_signal::gen_mut(move || {
                    p.set(p.get() + 1);
                    $frame
                })
                .delay(c.k as usize);
                for i in 0..6 {
                    ensure!(!d.is_exhausted(), "delay({}): exhausted before frame {}", c.k, i);
                    let f = d.next();
                    ensure!(f == $eq, "delay({}): frame {} is {:?}, expected the leading silence", c.k, i, f);
                    ensure!(pulls.get() == 0, "delay({}): the source was pulled {} times during the first {} frames of the leading silence", c.k, pulls.get(), i + 1);
                }
            }};
        }
        if c.stereo {
            go!([0.5f32, -0.25], [0.0f32, 0.0]);
        } else {
            go!(1234i16, 0i16);
        }
        Ok(())
    });
}
