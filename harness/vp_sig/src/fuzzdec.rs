//! Byte -> case decoders for the libFuzzer targets of the signal-level checks (hand-written over
//! `arbitrary::Unstructured`).  Every decoded case is inside the generated domain of the corresponding
//! proptest strategy and goes through exactly the same interpreter + oracle.

use crate::{c08, c11_core, c17, c18, c19, c20};
use arbitrary::Unstructured;
use vp_core::fmt::Kind;

fn idx(u: &mut Unstructured, n: usize) -> usize {
    if n <= 1 {
        return 0;
    }
    u.int_in_range(0..=(n - 1)).unwrap_or(0)
}
fn flag(u: &mut Unstructured) -> bool {
    idx(u, 2) == 1
}
/// value in [-1, 1) on a 16-bit grid
fn unit(u: &mut Unstructured) -> f64 {
    (idx(u, 65536) as f64 - 32768.0) / 32768.0
}

/// C08 — rate converter
pub fn conv(data: &[u8]) -> c08::Case {
    let mut u = Unstructured::new(data);
    let f = idx(&mut u, 7);
    let ft = if f < 5 { c08::FTS[f] } else { c08::FTS_FLOOR_ONLY[f - 5] };
    let interp = if flag(&mut u) && f < 5 { c08::Interp::Linear } else { c08::Interp::Floor };
    let src_len = if idx(&mut u, 4) == 0 { None } else { Some(1 + idx(&mut u, 59) as u64) };
    let ctor = c08::CTORS[idx(&mut u, 9)];
    let exact = idx(&mut u, 4) != 0;
    let hz_base = c08::HZ_BASES[idx(&mut u, c08::HZ_BASES.len())];
    let drain = flag(&mut u) && src_len.is_some();
    let outputs = 1 + idx(&mut u, 299) as u64;
    let np = 1 + idx(&mut u, 5);
    let mut params = Vec::new();
    for _ in 0..np {
        let p = if exact {
            if matches!(ctor, c08::Ctor::ScaleSampleHz | c08::Ctor::SetSampleHz) {
                2f64.powi(idx(&mut u, 9) as i32 - 4)
            } else {
                let m = idx(&mut u, 11) as u32;
                let k = 1 + idx(&mut u, 16 * 1024) as u32;
                let v = k as f64 / (1u32 << m) as f64;
                if v > 16.0 {
                    v / 1024.0
                } else {
                    v
                }
            }
        } else {
            // [1e-3, 1e3): mantissa in [1, 2) x 2^e
            let e = idx(&mut u, 20) as i32 - 10;
            let m = 1.0 + idx(&mut u, 1 << 20) as f64 / (1u32 << 20) as f64;
            (m * 2f64.powi(e)).clamp(1e-3, 999.0)
        };
        params.push(p.to_bits());
    }
    c08::Case { ft, interp, src_len, ctor, params, outputs, exact, drain, hz_base }
}

/// C11 — windowed RMS histories
pub fn rms(data: &[u8]) -> c11_core::Case {
    let mut u = Unstructured::new(data);
    let kind: Kind = c11_core::KINDS[idx(&mut u, c11_core::KINDS.len())];
    let channels = [1usize, 2, 5][idx(&mut u, 3)];
    let n = 1 + idx(&mut u, 64);
    let exact = flag(&mut u);
    let mut ops = Vec::new();
    while !u.is_empty() && ops.len() < 600 {
        let sel = idx(&mut u, 18);
        if sel == 0 {
            ops.push(if flag(&mut u) { c11_core::Op::Reset } else { c11_core::Op::CloneSwap });
            continue;
        }
        let quiet = idx(&mut u, 4) == 0;
        let vals: Vec<f64> = (0..channels)
            .map(|_| {
                if exact {
                    (idx(&mut u, 128) as f64 - 64.0) / 64.0
                } else if quiet {
                    unit(&mut u) * 1e-4
                } else {
                    unit(&mut u)
                }
            })
            .collect();
        ops.push(if sel < 5 { c11_core::Op::PushSquared(vals) } else { c11_core::Op::Push(vals) });
    }
    if ops.is_empty() {
        ops.push(c11_core::Op::Push(vec![0.5; channels]));
    }
    c11_core::Case { kind, channels, n, ops, exact }
}

/// C17 — oscillators
pub fn osc(data: &[u8]) -> c17::OscCase {
    let mut u = Unstructured::new(data);
    let exact = flag(&mut u);
    let rate = if exact {
        if flag(&mut u) { 2f64.powi(idx(&mut u, 25) as i32 - 4) } else { [3.0, 49.0, 98.0, 441.0, 44100.0, 48000.0, 12544.0, 6.125][idx(&mut u, 8)] }
    } else {
        [44100.0, 48000.0, 1.0, 1e-3, 1e9, 96000.0, 0.5, 22050.0, 3.0, 1e5][idx(&mut u, 10)]
    };
    let tiny = idx(&mut u, 5) == 0;
    let n = 1 + idx(&mut u, 5);
    let mut hz = Vec::new();
    for _ in 0..n {
        let step = if exact {
            if tiny && rate >= 1.0 && idx(&mut u, 2) == 0 {
                f64::from_bits(1 + idx(&mut u, 1 << 30) as u64)
            } else if tiny {
                idx(&mut u, 1 << 20) as f64 * 2f64.powi(-64)
            } else {
                idx(&mut u, 1 << 20) as f64 / (1u64 << idx(&mut u, 21)) as f64
            }
        } else {
            match idx(&mut u, 6) {
                0 => 0.0,
                1 => unit(&mut u).abs() * 0.5,
                2 => unit(&mut u).abs() * 3.0,
                3 => 1.0 + unit(&mut u).abs() * 1e9,
                4 => unit(&mut u).abs() * 3e-16,
                _ => [1.0, 0.5, 0.25, 1e-12, 0.9999999999999999, 1.0000000000000002, 1e-17][idx(&mut u, 7)],
            }
        };
        let h = step * rate;
        if h.is_finite() && (h / rate).is_finite() {
            hz.push(h.to_bits());
        }
    }
    if hz.is_empty() {
        hz.push(0f64.to_bits());
    }
    let frames = 1 + idx(&mut u, 1500) as u64;
    let hz_len = if idx(&mut u, 3) == 0 { Some(idx(&mut u, 200) as u64) } else { None };
    c17::OscCase { rate: rate.to_bits(), hz, frames, exact, hz_len }
}

/// C18 — sinc interpolation
pub fn sinc(data: &[u8]) -> c18::Case {
    let mut u = Unstructured::new(data);
    let ft = c18::FTS[idx(&mut u, c18::FTS.len())];
    let depth = 1 + idx(&mut u, 16);
    let array_storage = flag(&mut u);
    let mode = [c18::Mode::Transparent, c18::Mode::Linearity, c18::Mode::Constant, c18::Mode::Reset, c18::Mode::RandomRatio][idx(&mut u, 5)];
    let scale_pow = idx(&mut u, 6) as i8 - 3;
    let gain = [1.0, 1.0, 4.0, 1000.0, 1e-3, 1e6, 1e-21, 1e-30, 3.0, 1e-12][idx(&mut u, 10)];
    let hz_rate = [None, None, Some(44100.0), Some(44000.0), Some(49.0), Some(103.0), Some(0.1), Some(88000.0)][idx(&mut u, 8)];
    let ratio = 0.1 + idx(&mut u, 3900) as f64 / 1000.0;
    let nx = 1 + idx(&mut u, 4);
    let xs: Vec<f64> = (0..nx)
        .map(|_| match idx(&mut u, 4) {
            0 => 0.0,
            1 => 0.5,
            2 => 1.0 - f64::EPSILON / 2.0,
            _ => idx(&mut u, 1024) as f64 / 1024.0,
        })
        .collect();
    let la = idx(&mut u, 6 * depth + 1);
    let lb = idx(&mut u, 6 * depth + 1);
    let mut a: Vec<f64> = (0..la).map(|_| unit(&mut u)).collect();
    let mut b: Vec<f64> = (0..lb).map(|_| unit(&mut u)).collect();
    let ztail = if idx(&mut u, 3) == 0 { idx(&mut u, 2 * depth + 2) } else { 0 };
    let la_ = a.len();
    for v in a.iter_mut().skip(la_.saturating_sub(ztail)) {
        *v = 0.0;
    }
    if mode == c18::Mode::Linearity {
        for v in a.iter_mut().chain(b.iter_mut()) {
            *v *= 0.5;
        }
        if scale_pow > 0 {
            for v in a.iter_mut() {
                *v *= 0.25;
            }
        }
    }
    c18::Case { ft, depth, array_storage, mode, a, b, scale_pow, xs, ratio, gain, hz_rate, full_scale: ztail % 2 == 1 }
}

/// C19 — envelope follower histories
pub fn env(data: &[u8]) -> c19::EnvCase {
    let mut u = Unstructured::new(data);
    const TC: [f32; 12] = [0.0, -0.0, 1.0, 1e-3, 0.5, 10.0, 1e4, 1e9, 3.4e7, 100.0, 2.0, 1e-30];
    let ft = c19::FTS[idx(&mut u, 7)];
    let det = match idx(&mut u, 4) {
        0 => c19::Det::PeakFull,
        1 => c19::Det::PeakPos,
        2 => c19::Det::PeakNeg,
        _ => c19::Det::Rms(1 + idx(&mut u, 32)),
    };
    let attack = TC[idx(&mut u, 12)];
    let release = TC[idx(&mut u, 12)];
    let adaptor = flag(&mut u);
    let mut ops = Vec::new();
    while !u.is_empty() && ops.len() < 400 {
        match idx(&mut u, 16) {
            0 => ops.push(c19::Op::SetAttack(TC[idx(&mut u, 12)])),
            1 => ops.push(c19::Op::SetRelease(TC[idx(&mut u, 12)])),
            _ => {
                let n = 1 + idx(&mut u, 3);
                let quiet = idx(&mut u, 5) == 0;
                ops.push(c19::Op::Frame((0..n).map(|_| unit(&mut u) * if quiet { 1e-3 } else { 0.999 }).collect()));
            }
        }
    }
    if !ops.iter().any(|o| matches!(o, c19::Op::Frame(_))) {
        ops.push(c19::Op::Frame(vec![0.5]));
    }
    let tail = data.last().copied().unwrap_or(1);
    c19::EnvCase { ft, det, attack, release, ops, adaptor, attack_inf: tail % 16 == 0, release_inf: tail / 16 == 3 }
}

/// C20 — windower chunk schedule
pub fn windower(data: &[u8]) -> c20::ChunkCase {
    let mut u = Unstructured::new(data);
    let ft = [c20::FT::F64, c20::FT::F32x2, c20::FT::I16, c20::FT::U8x2][idx(&mut u, 4)];
    let hann = flag(&mut u);
    let l = idx(&mut u, 600);
    let bin = 2 + idx(&mut u, 78);
    let hop = match idx(&mut u, 8) {
        0 => usize::MAX - idx(&mut u, 100),
        1 => (usize::MAX / 2 + 1).wrapping_add(idx(&mut u, 100)),
        _ => 1 + idx(&mut u, 99),
    };
    c20::ChunkCase { l, bin, hop, hann, ft }
}

/// adaptor tree shared by C04 and C05 (same node set, weights and bounds as the proptest strategy `c04::tree`)
fn node(u: &mut Unstructured, depth: u32, probe_only: bool, budget: &mut u32) -> crate::tree::Node {
    use crate::tree::{LeafKind, Node};
    let leaf = |u: &mut Unstructured| {
        if probe_only {
            let len = if idx(u, 3) == 0 { None } else { Some(idx(u, 40) as u64) };
            Node::Leaf { len, kind: LeafKind::Probe }
        } else {
            let l = idx(u, 40) as u64;
            let extra = idx(u, 4);
            let kind = match idx(u, 5) {
                0 => LeafKind::Probe,
                1 => LeafKind::FromIter,
                2 => LeafKind::FromInterleaved { extra },
                3 => LeafKind::FromIterRevive { nones: 1 + extra as u8 },
                _ => LeafKind::FromInterleavedRevive { nones: 1 + extra as u8 },
            };
            Node::Leaf { len: Some(l), kind }
        }
    };
    if depth == 0 || *budget == 0 || u.is_empty() {
        return leaf(u);
    }
    *budget -= 1;
    let sel = idx(u, 14);
    if sel >= 12 {
        return leaf(u);
    }
    let blen = |u: &mut Unstructured| if idx(u, 3) == 0 { None } else { Some(idx(u, 40) as u64) };
    let code = |u: &mut Unstructured| idx(u, 256) as u8 as i8;
    let c = Box::new(node(u, depth - 1, probe_only, budget));
    match sel {
        0 => Node::Map(c),
        1 => Node::ScaleAmp(c, code(u)),
        2 => Node::OffsetAmp(c, code(u)),
        3 => Node::ScalePerCh(c, code(u)),
        4 => Node::OffsetPerCh(c, code(u)),
        5 => Node::ClipAmp(c, idx(u, 50) as u8),
        6 => Node::Inspect(c),
        7 => Node::Delay(c, idx(u, 5) as u8),
        8 => Node::ByRef(c, idx(u, 12) as u8),
        9 => Node::ZipMap(c, Box::new(node(u, depth - 1, probe_only, budget))),
        10 => Node::AddAmp(c, blen(u)),
        _ => Node::MulAmp(c, blen(u)),
    }
}

/// C04 — adaptor trees against the per-frame model
pub fn tree(data: &[u8]) -> crate::c04::Case {
    let mut u = Unstructured::new(data);
    let ft = crate::tree::FTS[idx(&mut u, 8)];
    let pulls = idx(&mut u, 48) as u64;
    let mut budget = 24;
    let tree = node(&mut u, 7, true, &mut budget);
    crate::c04::Case { ft, tree, pulls }
}

/// C05 — exhaustion through adaptor trees in every consumption mode
pub fn exhaust(data: &[u8]) -> crate::c05::Case {
    use crate::c05::Mode;
    let mut u = Unstructured::new(data);
    let ft = crate::tree::FTS[idx(&mut u, 8)];
    let mode = match idx(&mut u, 7) {
        0 => Mode::Step,
        1 => Mode::UntilExhausted,
        2 => Mode::Take(idx(&mut u, 50) as u64),
        3 => Mode::InterleavedIter,
        4 => Mode::NextSample,
        5 => Mode::Lift,
        _ => Mode::Borrowed,
    };
    let extra = if idx(&mut u, 3) == 0 { 1 + idx(&mut u, 5) as u64 } else { 0 };
    let mut budget = 24;
    let tree = node(&mut u, 7, false, &mut budget);
    crate::c05::Case { ft, tree, mode, extra }
}
