//! C08 — rate converter: position P_n = r_0 + ... + r_(n-1), floor(P_n) pulls, floor / linear
//! outputs, exhaustion, output counts.

use crate::tree::FnProbe;
use dasp_frame::Frame;
use dasp_interpolate::floor::Floor;
use dasp_interpolate::linear::Linear;
use dasp_interpolate::Interpolator;
use dasp_sample::{Duplex, Sample};
use dasp_signal::interpolate::Converter;
use dasp_signal::Signal;
use proptest::prelude::*;
use serde::{Deserialize, Serialize};
use vp_buf::probe::Counters;
use vp_core::fmt::{Fmt, Kind, Val};
use vp_core::{ensure, CheckResult, Ctx, Stats};

#[derive(Clone, Copy, Debug, PartialEq, Eq, Serialize, Deserialize)]
pub enum FT {
    F64,
    F32x2,
    I16,
    I32x2,
    U8,
    /// 64-bit integers do not fit the f64 the Linear interpolator works in: Floor only (the source frame itself must come out)
    I64,
    U64x2,
}
pub const FTS: [FT; 5] = [FT::F64, FT::F32x2, FT::I16, FT::I32x2, FT::U8];
/// frame types for which only the Floor interpolator is exact
pub const FTS_FLOOR_ONLY: [FT; 2] = [FT::I64, FT::U64x2];

#[derive(Clone, Copy, Debug, PartialEq, Eq, Serialize, Deserialize)]
pub enum Interp {
    Floor,
    Linear,
}

/// how the ratio reaches the converter; the parameter `p` (or per-frame parameters) is in the case
#[derive(Clone, Copy, Debug, PartialEq, Eq, Serialize, Deserialize)]
pub enum Ctor {
    /// Converter::scale_playback_hz(p): ratio = p
    ScalePlayback,
    /// Converter::from_hz_to_hz(p * 1024, 1024): ratio = (p*1024)/1024
    FromHzToHz,
    /// Converter::scale_sample_hz(p): ratio = 1/p
    ScaleSampleHz,
    /// Signal::scale_hz(p)
    SignalScaleHz,
    /// Signal::from_hz_to_hz(p * 1024, 1024)
    SignalFromHz,
    /// Signal::mul_hz(control) with control frame k = p_k: ratio_k = p_k
    MulHz,
    /// scale_playback_hz(1.0) then set_playback_hz_scale(p_k) before every output
    SetPlayback,
    /// set_hz_to_hz(p_k * 1024, 1024) before every output
    SetHzToHz,
    /// set_sample_hz_scale(p_k) before every output: ratio_k = 1/p_k
    SetSampleHz,
}
pub const CTORS: [Ctor; 9] = [Ctor::ScalePlayback, Ctor::FromHzToHz, Ctor::ScaleSampleHz, Ctor::SignalScaleHz, Ctor::SignalFromHz, Ctor::MulHz, Ctor::SetPlayback, Ctor::SetHzToHz, Ctor::SetSampleHz];

#[derive(Clone, Debug, Serialize, Deserialize)]
pub struct Case {
    pub ft: FT,
    pub interp: Interp,
    pub src_len: Option<u64>,
    pub ctor: Ctor,
    /// parameters as f64 bit patterns; constant constructors use params[0]; per-frame ones cycle
    pub params: Vec<u64>,
    pub outputs: u64,
    /// all parameters are k/2^m with m <= 10 (and reciprocals exact): float accumulation is exact
    pub exact: bool,
    /// consume with until_exhausted() instead of next() (finite sources only)
    pub drain: bool,
    /// the hz-pair entry points are called with (p * hz_base, hz_base); p * hz_base is exact for the generated parameters
    #[serde(default = "default_hz_base")]
    pub hz_base: u32,
}

fn default_hz_base() -> u32 {
    1024
}

/// target rates for the hz-pair entry points: a power of two, small odd numbers, common and uncommon audio rates
pub const HZ_BASES: [u32; 14] = [1024, 1, 3, 7, 49, 100, 441, 1000, 11000, 22000, 44000, 44100, 48000, 96000];

const SCALE_BITS: u32 = 64;

fn splitmix(mut x: u64) -> u64 {
    x = x.wrapping_add(0x9e37_79b9_7f4a_7c15);
    let mut z = x;
    z = (z ^ (z >> 30)).wrapping_mul(0xbf58_476d_1ce4_e5b9);
    z = (z ^ (z >> 27)).wrapping_mul(0x94d0_49bb_1331_11eb);
    z ^ (z >> 31)
}

/// source position -> the position whose value it carries: every third block of four frames is a plateau (four equal
/// frames: a blend of two equal frames must be that frame), elsewhere the identity
fn plateau(i: u64) -> u64 {
    if (i / 4) % 3 == 2 {
        i - i % 4
    } else {
        i
    }
}

/// per-position amplitude in grid units, locally injective outside the plateaus
fn a(i: u64) -> i64 {
    ((plateau(i) * 7919) % 2003) as i64 - 1001
}

pub trait RF: Frame + std::fmt::Debug
where
    Self::Sample: Duplex<f64> + Fmt,
{
    const FT: FT;
    fn at(i: u64) -> Self;
}
impl RF for f64 {
    const FT: FT = FT::F64;
    fn at(i: u64) -> Self {
        a(i) as f64 / 4096.0
    }
}
impl RF for [f32; 2] {
    const FT: FT = FT::F32x2;
    fn at(i: u64) -> Self {
        [a(i) as f32 / 4096.0, -(a(i) as f32) / 8192.0]
    }
}
impl RF for i16 {
    const FT: FT = FT::I16;
    fn at(i: u64) -> Self {
        // odd values: a blend of two equal frames computed as l*(1-x) + l*x rather than l + 0*x rounds below l
        // amplitudes up to +-32035: the swing between two neighbouring frames may exceed half of full scale
        (a(i) * 32 + 3) as i16
    }
}
impl RF for [i32; 2] {
    const FT: FT = FT::I32x2;
    fn at(i: u64) -> Self {
        // channel 0 swings by more than half of full scale between neighbours
        [((a(i) as i32) << 20) + 1_000_003, -((a(plateau(i) + 1) as i32) << 17) - 7]
    }
}
impl RF for i64 {
    const FT: FT = FT::I64;
    fn at(i: u64) -> Self {
        // more than 53 significant bits, odd
        (a(i) << 52) + ((plateau(i).wrapping_mul(2654435761) % (1 << 40)) as i64) * 2 + 1
    }
}
impl RF for [u64; 2] {
    const FT: FT = FT::U64x2;
    fn at(i: u64) -> Self {
        [(1u64 << 63).wrapping_add(<i64 as RF>::at(i) as u64), plateau(i) % 5]
    }
}
impl RF for u8 {
    const FT: FT = FT::U8;
    fn at(i: u64) -> Self {
        (128 + ((plateau(i) * 37) % 201) as i64 - 100) as u8
    }
}

/// effective ratio of parameter p under the constructor (the documented formula, one f64 op)
fn ratio_of(ctor: Ctor, p: f64, base: f64) -> f64 {
    match ctor {
        Ctor::ScalePlayback | Ctor::SignalScaleHz | Ctor::MulHz | Ctor::SetPlayback => p,
        Ctor::FromHzToHz | Ctor::SignalFromHz | Ctor::SetHzToHz => (p * base) / base,
        Ctor::ScaleSampleHz | Ctor::SetSampleHz => 1.0 / p,
    }
}

/// exact value of a finite positive f64 as an integer scaled by 2^SCALE_BITS (None if it needs more precision)
fn scaled(r: f64) -> Option<i128> {
    let d = vp_core::softfloat::dec_f64(r)?;
    let sh = d.exp + SCALE_BITS as i32;
    if sh >= 0 {
        if sh > 60 {
            return None;
        }
        Some((d.mant as i128) << sh)
    } else {
        let s = (-sh) as u32;
        if s >= 64 || d.mant & ((1u64 << s) - 1) != 0 {
            return None;
        }
        Some((d.mant >> s) as i128)
    }
}

fn src_frame<F: RF>(i: u64, len: Option<u64>) -> F
where
    F::Sample: Duplex<f64> + Fmt,
{
    match len {
        Some(l) if i >= l => F::EQUILIBRIUM,
        _ => F::at(i),
    }
}

struct Expect {
    /// allowed values of `pulls beyond priming` before this output
    pulls_lo: u64,
    pulls_hi: u64,
}

fn chan_vals<F: Frame>(f: F) -> Vec<Val>
where
    F::Sample: Fmt,
{
    f.channels().map(|s| s.to_val()).collect()
}

fn val_f64(v: Val) -> f64 {
    match v {
        Val::I(r) => r as f64,
        Val::F32(x) => x as f64,
        Val::F64(x) => x,
    }
}

/// compare one Linear output channel with the blend of l and r at position fraction
/// `frac_num / 2^SCALE_BITS` (may be slightly outside [0,1) in the general regime)
fn check_linear_channel(k: Kind, got: Val, l: Val, r: Val, frac_num: i128, delta: i128, exact: bool) -> Result<(), String> {
    match k {
        Kind::Int { .. } => {
            let (g, la, ra) = match (got, l, r) {
                (Val::I(g), Val::I(l), Val::I(r)) => (g - k.offset(), l - k.offset(), r - k.offset()),
                _ => return Err("variant".into()),
            };
            // exact blend numerator over 2^SCALE_BITS, truncated toward zero
            let blend = |f: i128| -> i128 {
                let num = (la << SCALE_BITS) + (ra - la) * f;
                let q = num >> SCALE_BITS; // floor
                if num < 0 && (num & ((1i128 << SCALE_BITS) - 1)) != 0 {
                    q + 1
                } else {
                    q
                }
            };
            if exact {
                let e = blend(frac_num);
                if g != e {
                    return Err(format!("linear output amplitude {} but the straight-line blend of {} and {} at fraction {}/2^64 truncates to {}", g, la, ra, frac_num, e));
                }
            } else {
                let (e1, e2) = (blend(frac_num - delta), blend(frac_num + delta));
                let (lo, hi) = (e1.min(e2) - 1, e1.max(e2) + 1);
                if g < lo || g > hi {
                    return Err(format!("linear output amplitude {} outside [{}, {}] (blend of {} and {} near fraction {}/2^64)", g, lo, hi, la, ra, frac_num));
                }
            }
            // l + (r - l) * x with x in [0, 1) cannot round outside [l, r] (the difference of two integer amplitudes is exact
            // in f64 and rounding is monotone), and truncation toward zero keeps it inside: exact in both regimes
            let (lo, hi) = (la.min(ra), la.max(ra));
            if g < lo || g > hi {
                return Err(format!("linear output amplitude {} outside the interval spanned by its two source frames [{}, {}]", g, la.min(ra), la.max(ra)));
            }
            Ok(())
        }
        _ => {
            let (g, lf, rf) = (val_f64(got), val_f64(l), val_f64(r));
            let f = frac_num as f64 / 18446744073709551616.0;
            let e = lf + (rf - lf) * f;
            let ulp = if k == Kind::F32 { f32::EPSILON as f64 } else { f64::EPSILON };
            let scale = lf.abs().max(rf.abs());
            if exact {
                // grid values: every intermediate is exactly representable
                let e_t = if k == Kind::F32 { (e as f32) as f64 } else { e };
                if g != e_t {
                    return Err(format!("linear output {} but the straight-line blend of {} and {} at fraction {} is {}", g, lf, rf, f, e_t));
                }
            } else {
                let tol = (rf - lf).abs() * (delta as f64 / 18446744073709551616.0) + 4.0 * ulp * scale + f64::MIN_POSITIVE;
                if (g - e).abs() > tol {
                    return Err(format!("linear output {} differs from the blend {} of {} and {} at fraction {} by more than {}", g, e, lf, rf, f, tol));
                }
            }
            let w = if exact { 0.0 } else { 4.0 * ulp * scale };
            if g < lf.min(rf) - w || g > lf.max(rf) + w {
                return Err(format!("linear output {} outside the interval spanned by its two source frames [{}, {}]", g, lf.min(rf), lf.max(rf)));
            }
            Ok(())
        }
    }
}

enum Conv<F: RF>
where
    F::Sample: Duplex<f64> + Fmt,
{
    FloorC(Converter<FnProbe<F>, Floor<F>>),
    LinearC(Converter<FnProbe<F>, Linear<F>>),
    FloorM(dasp_signal::MulHz<FnProbe<F>, FnProbe<f64>, Floor<F>>),
    LinearM(dasp_signal::MulHz<FnProbe<F>, FnProbe<f64>, Linear<F>>),
}

fn run_typed<F: RF>(c: &Case, st: &mut Stats) -> CheckResult
where
    F::Sample: Duplex<f64> + Fmt,
{
    ensure!(!c.params.is_empty(), "bad case: no ratio parameter");
    let params: Vec<f64> = c.params.iter().map(|b| f64::from_bits(*b)).collect();
    let ratios: Vec<f64> = params.iter().map(|p| ratio_of(c.ctor, *p, c.hz_base as f64)).collect();
    for (p, r) in params.iter().zip(&ratios) {
        ensure!(p.is_finite() && *p > 0.0 && r.is_finite() && *r > 0.0, "bad case: ratio must be > 0");
    }
    let varying = matches!(c.ctor, Ctor::MulHz | Ctor::SetPlayback | Ctor::SetHzToHz | Ctor::SetSampleHz);
    let ratio_at = |k: u64| -> f64 {
        if varying {
            ratios[(k % ratios.len() as u64) as usize]
        } else {
            ratios[0]
        }
    };
    let rmax = ratios.iter().cloned().fold(0.0f64, f64::max);
    let prime: u64 = if c.interp == Interp::Floor { 1 } else { 2 };
    let k = <F::Sample as Fmt>::KIND;

    // ---- build the converter exactly as a user would
    let counters = Counters::new();
    let ctl_counters = Counters::new();
    let mut src: FnProbe<F> = FnProbe::new(c.src_len, F::at as fn(u64) -> F, counters.clone());
    let p0 = params[0];
    let hzb = c.hz_base as f64;
    ensure!(c.hz_base >= 1, "bad case: target rate must be > 0");
    fn ctl(_: u64) -> f64 {
        0.0
    }
    let _ = ctl;
    // control signal for mul_hz: a probe cycling through the parameters (infinite)
    thread_local! { static CTL: std::cell::RefCell<Vec<f64>> = const { std::cell::RefCell::new(Vec::new()) }; }
    CTL.with(|v| *v.borrow_mut() = params.clone());
    fn ctl_at(i: u64) -> f64 {
        CTL.with(|v| {
            let v = v.borrow();
            v[(i % v.len() as u64) as usize]
        })
    }
    let mut conv: Conv<F> = match (c.interp, c.ctor) {
        (Interp::Floor, ctor) => {
            let i = Floor::new(src.next());
            match ctor {
                Ctor::ScalePlayback => Conv::FloorC(Converter::scale_playback_hz(src, i, p0)),
                Ctor::FromHzToHz => Conv::FloorC(Converter::from_hz_to_hz(src, i, p0 * hzb, hzb)),
                Ctor::ScaleSampleHz => Conv::FloorC(Converter::scale_sample_hz(src, i, p0)),
                Ctor::SignalScaleHz => Conv::FloorC(src.scale_hz(i, p0)),
                Ctor::SignalFromHz => Conv::FloorC(src.from_hz_to_hz(i, p0 * hzb, hzb)),
                Ctor::MulHz => Conv::FloorM(src.mul_hz(i, FnProbe::new(None, ctl_at as fn(u64) -> f64, ctl_counters.clone()))),
                _ => Conv::FloorC(Converter::scale_playback_hz(src, i, 1.0)),
            }
        }
        (Interp::Linear, ctor) => {
            let a0 = src.next();
            let a1 = src.next();
            let i = Linear::new(a0, a1);
            match ctor {
                Ctor::ScalePlayback => Conv::LinearC(Converter::scale_playback_hz(src, i, p0)),
                Ctor::FromHzToHz => Conv::LinearC(Converter::from_hz_to_hz(src, i, p0 * hzb, hzb)),
                Ctor::ScaleSampleHz => Conv::LinearC(Converter::scale_sample_hz(src, i, p0)),
                Ctor::SignalScaleHz => Conv::LinearC(src.scale_hz(i, p0)),
                Ctor::SignalFromHz => Conv::LinearC(src.from_hz_to_hz(i, p0 * hzb, hzb)),
                Ctor::MulHz => Conv::LinearM(src.mul_hz(i, FnProbe::new(None, ctl_at as fn(u64) -> f64, ctl_counters.clone()))),
                _ => Conv::LinearC(Converter::scale_playback_hz(src, i, 1.0)),
            }
        }
    };
    ensure!(counters.pulls() == prime, "harness: priming pulled {} frames", counters.pulls());

    // ---- model state
    let mut pos: i128 = 0; // P_n scaled by 2^64
    let mut prev_pulls_hi: u64 = 0;
    let mut n_out: u64 = 0;
    let mut reached_exhaustion = false;
    let mut overshoot = false;
    let one: i128 = 1i128 << SCALE_BITS;
    let limit = if c.drain { c.outputs + 100_000 } else { c.outputs };
    let mut model_count_at_exhaustion: Option<u64> = None;

    loop {
        if n_out >= limit {
            break;
        }
        // accumulated rounding allowance (general regime): n additions of magnitude < 1 + r
        let delta: i128 = if c.exact { 0 } else { ((n_out as f64 + 1.0) * (1.0 + rmax) * 8192.0).ceil() as i128 + 1 }; // n * 2^-51 * (1+rmax) in 2^-64 units
        let fl = |p: i128| -> u64 { (p.max(0) >> SCALE_BITS) as u64 };
        let ex = Expect { pulls_lo: fl(pos - delta), pulls_hi: fl(pos + delta) };
        // exhaustion before this output
        let src_pos_lo = prime + prev_pulls_hi.min(ex.pulls_lo);
        let needs_pull_certain = ex.pulls_lo > prev_pulls_hi;
        let needs_pull_possible = ex.pulls_hi > counters.pulls() - prime;
        let observed_pulls_before = counters.pulls() - prime;
        let src_exhausted = c.src_len.map_or(false, |l| prime + observed_pulls_before >= l);
        let is_ex = match &conv {
            Conv::FloorC(x) => x.is_exhausted(),
            Conv::LinearC(x) => x.is_exhausted(),
            Conv::FloorM(x) => x.is_exhausted(),
            Conv::LinearM(x) => x.is_exhausted(),
        };
        let _ = src_pos_lo;
        // expected: source exhausted AND the next output needs a further source frame
        let exp_certain_true = src_exhausted && needs_pull_certain && ex.pulls_lo > observed_pulls_before;
        let exp_certain_false = !src_exhausted || !needs_pull_possible;
        if exp_certain_true {
            ensure!(is_ex, "before output {}: is_exhausted() = false although the source is exhausted and position {}/2^64 needs source frame {} (only {} pulled)", n_out, pos, ex.pulls_lo, observed_pulls_before);
        }
        if exp_certain_false {
            ensure!(!is_ex, "before output {}: is_exhausted() = true although {} (source exhausted: {}, pulled {}, position needs {}..={})", n_out, if !src_exhausted { "the source still has frames" } else { "no further source frame is needed" }, src_exhausted, observed_pulls_before, ex.pulls_lo, ex.pulls_hi);
        }
        if is_ex {
            reached_exhaustion = true;
            if model_count_at_exhaustion.is_none() {
                model_count_at_exhaustion = Some(n_out);
            }
            if c.drain {
                break;
            }
        }
        // set the ratio the way the constructor variant does, then pull one output
        let r_k = ratio_at(n_out);
        let p_k = params[(n_out % params.len() as u64) as usize];
        let ctl_before = ctl_counters.pulls();
        let out: F = match &mut conv {
            Conv::FloorC(x) => {
                match c.ctor {
                    Ctor::SetPlayback => x.set_playback_hz_scale(p_k),
                    Ctor::SetHzToHz => x.set_hz_to_hz(p_k * hzb, hzb),
                    Ctor::SetSampleHz => x.set_sample_hz_scale(p_k),
                    _ => {}
                }
                x.next()
            }
            Conv::LinearC(x) => {
                match c.ctor {
                    Ctor::SetPlayback => x.set_playback_hz_scale(p_k),
                    Ctor::SetHzToHz => x.set_hz_to_hz(p_k * hzb, hzb),
                    Ctor::SetSampleHz => x.set_sample_hz_scale(p_k),
                    _ => {}
                }
                x.next()
            }
            Conv::FloorM(x) => x.next(),
            Conv::LinearM(x) => x.next(),
        };
        if c.ctor == Ctor::MulHz {
            ensure!(ctl_counters.pulls() == ctl_before + 1, "output {}: mul_hz pulled {} control frames for one output frame", n_out, ctl_counters.pulls() - ctl_before);
        }
        let pulls = counters.pulls() - prime;
        ensure!(
            pulls >= ex.pulls_lo && pulls <= ex.pulls_hi,
            "output {}: the converter has pulled {} source frames beyond priming, but position P_n = {}/2^64 = {:.6} requires floor(P_n) = {}{}",
            n_out, pulls, pos, pos as f64 / 18446744073709551616.0, ex.pulls_lo, if ex.pulls_hi != ex.pulls_lo { format!("..={}", ex.pulls_hi) } else { String::new() }
        );
        if c.src_len.map_or(false, |l| prime + pulls > l) {
            overshoot = true;
        }
        // outputs
        let l = src_frame::<F>(pulls + prime - 1 - (prime - 1), c.src_len); // frame at index `pulls`
        let gv = chan_vals(out);
        match c.interp {
            Interp::Floor => {
                ensure!(out == l, "output {}: floor interpolator yielded {:?}, but the source frame at floor(P_n) = {} is {:?} (a frame was skipped or re-read)", n_out, out, pulls, l);
            }
            Interp::Linear => {
                let r = src_frame::<F>(pulls + 1, c.src_len);
                let (lv, rv) = (chan_vals(l), chan_vals(r));
                let frac = pos - ((pulls as i128) << SCALE_BITS);
                for ch in 0..gv.len() {
                    check_linear_channel(k, gv[ch], lv[ch], rv[ch], frac, delta, c.exact).map_err(|e| format!("output {} channel {}: {}", n_out, ch, e))?;
                }
                if ratios.iter().all(|r| *r == 1.0) {
                    ensure!(out == l, "output {}: ratio 1 must reproduce the source, got {:?} for source frame {:?}", n_out, out, l);
                }
            }
        }
        // advance the model
        let rs = match scaled(r_k) {
            Some(x) => x,
            None => return Err("bad case: ratio not representable at 2^-64 (outside the generated domain)".into()),
        };
        pos += rs;
        let _ = one;
        prev_pulls_hi = pulls;
        n_out += 1;
    }

    // the source handed back by the converter resumes exactly after the last frame it pulled
    {
        let pulled = counters.pulls();
        let resumed: Option<F> = match conv {
            Conv::FloorC(x) => {
                let _ = x.source().is_exhausted();
                Some(x.into_source().next())
            }
            Conv::LinearC(mut x) => Some(x.source_mut().next()),
            _ => None,
        };
        if let Some(f) = resumed {
            let exp = src_frame::<F>(pulled, c.src_len);
            ensure!(f == exp, "the converter's source resumes with {:?}, expected source frame {} = {:?} (a frame was skipped or re-read)", f, pulled, exp);
        }
    }

    if c.drain {
        if let Some(l) = c.src_len {
            ensure!(reached_exhaustion, "draining a finite source of {} frames did not end within {} outputs", l, limit);
            // compare with the real until_exhausted() on a second, identical converter (constant ratio)
            if !varying {
                let r = ratios[0];
                let rr = l.saturating_sub(prime) as f64; // R
                let base = ((rr + 1.0) / r).ceil() as u64;
                let count = model_count_at_exhaustion.unwrap();
                // in the general regime the ceiling itself may sit on a rounding boundary
                let slack = if c.exact { 0 } else { 1 };
                ensure!(
                    count + slack >= base && count <= base + 1 + slack,
                    "a source with R = {} frames after priming at constant ratio {} yielded {} outputs, expected ceil((R+1)/r) = {} or one more",
                    rr, r, count, base
                );
                let counters2 = Counters::new();
                let mut src2: FnProbe<F> = FnProbe::new(c.src_len, F::at as fn(u64) -> F, counters2);
                let n2 = match c.interp {
                    Interp::Floor => {
                        let i = Floor::new(src2.next());
                        Converter::scale_playback_hz(src2, i, r).until_exhausted().take(limit as usize + 5).count()
                    }
                    Interp::Linear => {
                        let a0 = src2.next();
                        let a1 = src2.next();
                        Converter::scale_playback_hz(src2, Linear::new(a0, a1), r).until_exhausted().take(limit as usize + 5).count()
                    }
                };
                ensure!(n2 as u64 == count, "until_exhausted() yielded {} frames, stepping with is_exhausted() gave {}", n2, count);
            }
        }
    }

    let non_dyadic = !c.exact;
    st.nt(ratios.iter().any(|r| *r != 1.0 && *r != 0.5) || varying || k.is_int() || reached_exhaustion);
    st.class_if(rmax > 1.0, "ratio > 1");
    st.class_if(non_dyadic, "non-dyadic ratio (general regime)");
    st.class_if(varying && ratios.len() > 1, "varying ratio");
    st.class_if(reached_exhaustion, "exhaustion reached");
    st.class_if(overshoot, "overshoot past the end of the source");
    st.class_if(k.is_int(), "integer frame format");
    st.class_if(ratios.iter().all(|r| *r == 1.0), "ratio exactly 1");
    Ok(())
}

pub fn check(c: &Case, st: &mut Stats) -> CheckResult {
    match c.ft {
        FT::F64 => run_typed::<f64>(c, st),
        FT::F32x2 => run_typed::<[f32; 2]>(c, st),
        FT::I16 => run_typed::<i16>(c, st),
        FT::I32x2 => run_typed::<[i32; 2]>(c, st),
        FT::U8 => run_typed::<u8>(c, st),
        FT::I64 | FT::U64x2 if c.interp == Interp::Linear => Err("bad case: 64-bit integer frames are only driven through the Floor interpolator".into()),
        FT::I64 => run_typed::<i64>(c, st),
        FT::U64x2 => run_typed::<[u64; 2]>(c, st),
    }
}

/// dyadic parameter k/2^m in (0, 16]; for reciprocal constructors a power of two
fn dyadic_param(ctor: Ctor) -> BoxedStrategy<f64> {
    if matches!(ctor, Ctor::ScaleSampleHz | Ctor::SetSampleHz) {
        (-4i32..=4).prop_map(|e| 2f64.powi(e)).boxed()
    } else {
        prop_oneof![
            3 => (1u32..=16 * 1024, 0u32..=10).prop_map(|(k, m)| {
                let v = k as f64 / (1u32 << m) as f64;
                if v > 16.0 { v / 1024.0 } else { v }
            }),
            1 => proptest::sample::select(vec![1.0, 0.5, 2.0, 0.25, 1.5, 3.0, 0.75, 16.0, 1.0 / 1024.0]),
        ]
        .boxed()
    }
}

fn general_param() -> BoxedStrategy<f64> {
    prop_oneof![
        3 => (0.001f64..1000.0),
        2 => (0.05f64..4.0),
        2 => proptest::sample::select(vec![0.1, 1.0 / 3.0, 44100.0 / 48000.0, 48000.0 / 44100.0, std::f64::consts::E, std::f64::consts::PI, 0.999999999, 1.000000001, 2.5, 0.3]),
    ]
    .boxed()
}

pub fn case_strategy(max_out: u64) -> impl Strategy<Value = Case> {
    (0usize..7, any::<bool>(), prop_oneof![3 => (1u64..60).prop_map(Some), 1 => Just(None)], 0usize..9, any::<bool>(), any::<bool>(), proptest::sample::select(HZ_BASES.to_vec())).prop_flat_map(move |(f, lin, src_len, ci, exact, drain, hz_base)| {
        let ctor = CTORS[ci];
        let p = if exact { dyadic_param(ctor) } else { general_param() };
        (proptest::collection::vec(p, 1..6), 1u64..max_out).prop_map(move |(ps, outputs)| Case {
            ft: if f < 5 { FTS[f] } else { FTS_FLOOR_ONLY[f - 5] },
            interp: if lin && f < 5 { Interp::Linear } else { Interp::Floor },
            src_len,
            ctor,
            params: ps.iter().map(|x| x.to_bits()).collect(),
            outputs,
            exact,
            drain: drain && src_len.is_some(),
            hz_base,
        })
    })
}

pub fn run(ctx: &mut Ctx) {
    ctx.set_rule(
        "cases are (frame type out of f64, [f32;2], i16, [i32;2], u8, and with the floor interpolator only i64 and [u64;2] with more than 53 significant bits; floor|linear; source length 1..60 or infinite; one of 9 ways of setting the ratio incl. mul_hz and the per-frame setters; \
         1..5 ratio parameters; number of outputs up to 300; step or drain to exhaustion); exact regime: parameters k/2^m (m <= 10, ratio in (0,16]) and grid-valued frames so every intermediate is exactly representable and \
         comparison is ==; general regime: arbitrary ratios in [1e-3, 1e3] (incl. 0.1, 1/3, 44100/48000, e) with a derived tolerance; non-trivial: ratio not 1 and not 0.5, or varying ratio, or integer format, or the run reaches exhaustion",
    );
    ctx.assume("reference model holds the position P_n as an exact integer multiple of 2^-64; exact regime: pulls beyond priming == floor(P_n), floor output == source[floor(P_n)], linear output == exact blend (truncated toward zero for integer formats); general regime: pulls in floor(P_n -+ d_n) with d_n = n*2^-51*(1+r_max), floor output consistent with the observed pull count, linear output within |r-l|*d_n + 4 ulp (+1 LSB) of the exact blend and inside the interval spanned by its two frames");
    ctx.assume("the effective ratio of a constructor/setter is its documented formula evaluated once in f64 (scale; 1/scale; source_hz/target_hz); the hz-pair entry points are called with (p x t, t) for target rates t in {1024, 1, 3, 7, 49, 100, 441, 1000, 11000, 22000, 44000, 44100, 48000, 96000}, p x t exact, so the quotient is exactly p in the exact regime");
    for c in ["ratio > 1", "non-dyadic ratio (general regime)", "varying ratio", "exhaustion reached", "overshoot past the end of the source", "ratio exactly 1"] {
        ctx.require_class(c);
    }
    ctx.prop("random-runs", ctx.pick(100_000, 600_000), case_strategy(300), check);

    // small exhaustive grid, exact regime: every dyadic ratio k/4 in (0, 4] x source length 1..=8 x both interpolators x drain
    let mut cases = Vec::new();
    for &ft in &FTS {
        for lin in [false, true] {
            for len in 1..=8u64 {
                for kq in 1..=16u32 {
                    for ctor in [Ctor::ScalePlayback, Ctor::MulHz, Ctor::SetHzToHz] {
                        cases.push(Case { ft, interp: if lin { Interp::Linear } else { Interp::Floor }, src_len: Some(len), ctor, params: vec![(kq as f64 / 4.0).to_bits()], outputs: 60, exact: true, drain: true, hz_base: HZ_BASES[(len as usize * 16 + kq as usize) % HZ_BASES.len()] });
                    }
                }
            }
        }
    }
    let n = cases.len() as u64;
    ctx.par_enumerate("grid-exact-drain", true, n, move |i| cases[i as usize].clone(), check);

    // the hz-pair entry points with every whole-number and quarter ratio up to 200 / 50 over every target rate: the quotient
    // source_hz / target_hz is exact, so every position is a multiple of 1/4 and whole positions land exactly on a source frame
    let mut cases = Vec::new();
    for kq in 1..=200u32 {
        for &hz_base in &HZ_BASES {
            for ctor in [Ctor::FromHzToHz, Ctor::SignalFromHz, Ctor::SetHzToHz, Ctor::SetPlayback, Ctor::MulHz, Ctor::ScalePlayback] {
                if !matches!(ctor, Ctor::FromHzToHz | Ctor::SignalFromHz | Ctor::SetHzToHz) && hz_base != 1024 {
                    continue; // the rate pair only matters for the hz-pair entry points
                }
                for (lin, quarter) in [(false, false), (true, false), (false, true), (true, true)] {
                    let p = if quarter { kq as f64 / 4.0 } else { kq as f64 };
                    cases.push(Case { ft: if lin { FT::F64 } else { FT::I16 }, interp: if lin { Interp::Linear } else { Interp::Floor }, src_len: None, ctor, params: vec![p.to_bits()], outputs: 9, exact: true, drain: false, hz_base });
                }
            }
        }
    }
    let n = cases.len() as u64;
    ctx.par_enumerate("hz-pair-exact-quotients", true, n, move |i| cases[i as usize].clone(), check);

    // ratios far above 1 (a thousand and more source frames per output frame), exact regime
    let mut cases = Vec::new();
    for p in [1000.0f64, 1024.0, 1025.0, 1500.0, 2048.25, 4097.5, 65536.0, 100000.75] {
        for ctor in [Ctor::ScalePlayback, Ctor::MulHz, Ctor::SetPlayback, Ctor::FromHzToHz] {
            for (ft, lin) in [(FT::F64, true), (FT::I16, false), (FT::I32x2, true), (FT::I64, false), (FT::U64x2, false)] {
                for src_len in [None, Some(10_000u64)] {
                    cases.push(Case { ft, interp: if lin { Interp::Linear } else { Interp::Floor }, src_len, ctor, params: vec![p.to_bits()], outputs: 5, exact: true, drain: false, hz_base: 1024 });
                }
            }
        }
    }
    let n = cases.len() as u64;
    ctx.par_enumerate("ratios-above-1000", true, n, move |i| cases[i as usize].clone(), check);

    // drift: long runs (general regime), infinite source
    let long: u64 = ctx.pick(20_000, 1_000_000);
    let mut cases = Vec::new();
    for (j, p) in [0.1f64, 1.0 / 3.0, 44100.0 / 48000.0, 0.999999999, 2.5].iter().enumerate() {
        cases.push(Case { ft: FTS[j % 5], interp: if j % 2 == 0 { Interp::Linear } else { Interp::Floor }, src_len: None, ctor: Ctor::ScalePlayback, params: vec![p.to_bits()], outputs: long, exact: false, drain: false, hz_base: 1024 });
    }
    cases.push(Case { ft: FT::F64, interp: Interp::Linear, src_len: None, ctor: Ctor::ScalePlayback, params: vec![(1.0f64 / 1024.0).to_bits()], outputs: long, exact: true, drain: false, hz_base: 1024 });
    let n = cases.len() as u64;
    ctx.par_enumerate("long-runs-drift", true, n, move |i| cases[i as usize].clone(), check);
    let _ = splitmix(0);
}
