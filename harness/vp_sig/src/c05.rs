//! C05 — finite signals end exactly once: exhaustion is exact, contagious, then silent.

use crate::c04::tree as tree_strategy;
use crate::tree::*;
use dasp_frame::Frame;
use dasp_signal::envelope::SignalEnvelope;
use dasp_signal::rms::SignalRms;
use dasp_signal::{self as signal, Signal};
use proptest::prelude::*;
use serde::{Deserialize, Serialize};
use vp_core::{ensure, CheckResult, Ctx, Stats};

#[derive(Clone, Copy, Debug, PartialEq, Eq, Serialize, Deserialize)]
pub enum Mode {
    /// is_exhausted() before and after every next(), `extra` pulls past the end
    Step,
    UntilExhausted,
    Take(u64),
    InterleavedIter,
    NextSample,
    /// signal::lift over a plain frame iterator (the tree is ignored except for the leaf length)
    Lift,
    /// the signal is consumed through a `&mut` borrow (`impl Signal for &mut S`): is_exhausted() before every next(),
    /// then `by_ref().until_exhausted()` over a fresh instance
    Borrowed,
}

#[derive(Clone, Debug, Serialize, Deserialize)]
pub struct Case {
    pub ft: FT,
    pub tree: Node,
    pub mode: Mode,
    pub extra: u64,
}

const INFINITE_WINDOW: u64 = 45;

fn run_typed<F: TF>(c: &Case, st: &mut Stats) -> CheckResult
where
    F::Signed: std::fmt::Debug + 'static,
    F::Float: std::fmt::Debug + 'static,
    F::Sample: std::fmt::Debug,
{
    let mut b = Built::default();
    let l = model_len(&c.tree);
    let (adaptors, has_bin, _, has_delay) = count_nodes(&c.tree);
    let chans = F::CHANNELS as u64;
    let mut leaf_lens = Vec::new();
    let mut t2 = c.tree.clone();
    let mut partial = false;
    map_leaves(&mut t2, &mut |len, kind| {
        leaf_lens.push(*len);
        if let LeafKind::FromInterleaved { extra } = kind {
            if *extra % (chans as usize).max(1) != 0 && chans > 1 {
                partial = true;
            }
        }
    });
    let differing = leaf_lens.iter().any(|x| *x != leaf_lens[0]);
    st.nt(partial || l.map_or(false, |x| x <= 1) || (has_bin && differing) || (has_delay && l.is_some()) || c.extra > 0);
    st.class_if(partial, "interleaved input with a trailing incomplete frame");
    let mut t3 = c.tree.clone();
    let mut revive = false;
    map_leaves(&mut t3, &mut |_, kind| revive |= matches!(kind, LeafKind::FromIterRevive { .. } | LeafKind::FromInterleavedRevive { .. }));
    st.class_if(revive, "non-fused source iterator (yields items again after None)");
    st.class_if(l == Some(0), "zero-length signal");
    st.class_if(has_bin && differing, "two sources of different length");
    st.class_if(has_delay && l.is_some(), "delay over a finite source");
    st.class_if(adaptors >= 2, "stack of >= 2 adaptors");
    let none5 = |it: &mut dyn Iterator<Item = F>, what: &str| -> CheckResult {
        for j in 0..5 {
            ensure!(it.next().is_none(), "{}: yielded another frame on call {} after it had stopped", what, j + 1);
        }
        Ok(())
    };
    match c.mode {
        Mode::Step => {
            let mut sig = build::<F>(&c.tree, &mut b);
            let n = l.unwrap_or(INFINITE_WINDOW) + c.extra;
            for k in 0..n {
                let ex = sig.is_exhausted();
                let exp = l.map_or(false, |len| k >= len);
                ensure!(ex == exp, "before pull {}: is_exhausted() = {}, but the shortest source (plus leading delays) ends after {:?} frames", k, ex, l);
                let got = sig.next();
                let m = model::<F>(&c.tree, k);
                ensure!(got == m, "frame {}: got {:?}, expected {:?} (sources yield equilibrium after their end)", k, got, m);
                let ex2 = sig.is_exhausted();
                let exp2 = l.map_or(false, |len| k + 1 >= len);
                ensure!(ex2 == exp2, "after pull {}: is_exhausted() = {}, expected {}", k, ex2, exp2);
            }
            st.class_if(c.extra > 0 && l.is_some(), "pulls past exhaustion");
        }
        Mode::UntilExhausted => {
            let len = match l {
                Some(x) => x,
                None => return Ok(()),
            };
            let sig = build::<F>(&c.tree, &mut b);
            let mut it = sig.until_exhausted();
            for k in 0..len {
                match it.next() {
                    Some(f) => ensure!(f == model::<F>(&c.tree, k), "until_exhausted() item {}: got {:?}, expected {:?}", k, f, model::<F>(&c.tree, k)),
                    None => return Err(format!("until_exhausted() stopped after {} frames, expected exactly {}", k, len)),
                }
            }
            none5(&mut it, &format!("until_exhausted() over a signal of {} frames", len))?;
            let reference: Vec<F> = (0..len).map(|k| model::<F>(&c.tree, k)).collect();
            vp_core::iterlaws::iter_laws("until_exhausted()", || build::<F>(&c.tree, &mut Built::default()).until_exhausted(), &reference, true)?;
        }
        Mode::Take(n) => {
            let sig = build::<F>(&c.tree, &mut b);
            let mut it = sig.take(n as usize);
            ensure!(it.len() == n as usize, "take({}).len() = {}", n, it.len());
            for k in 0..n {
                match it.next() {
                    Some(f) => ensure!(f == model::<F>(&c.tree, k), "take({}) item {}: got {:?}, expected {:?}", n, k, f, model::<F>(&c.tree, k)),
                    None => return Err(format!("take({}) stopped after {} frames", n, k)),
                }
            }
            none5(&mut it, &format!("take({})", n))?;
            let reference: Vec<F> = (0..n).map(|k| model::<F>(&c.tree, k)).collect();
            vp_core::iterlaws::iter_laws("take(n)", || build::<F>(&c.tree, &mut Built::default()).take(n as usize), &reference, true)?;
        }
        Mode::InterleavedIter | Mode::NextSample => {
            let len = match l {
                Some(x) => x,
                None => return Ok(()),
            };
            let sig = build::<F>(&c.tree, &mut b);
            let mut expect: Vec<F::Sample> = Vec::new();
            for k in 0..len {
                expect.extend(model::<F>(&c.tree, k).channels());
            }
            let mut got: Vec<F::Sample> = Vec::new();
            let mut nones = 0;
            if c.mode == Mode::InterleavedIter {
                let mut it = sig.into_interleaved_samples().into_iter();
                while (got.len() as u64) < len * chans + 4 {
                    match it.next() {
                        Some(s) => got.push(s),
                        None => break,
                    }
                }
                for _ in 0..5 {
                    if it.next().is_none() {
                        nones += 1;
                    }
                }
            } else {
                let mut is = sig.into_interleaved_samples();
                while (got.len() as u64) < len * chans + 4 {
                    match is.next_sample() {
                        Some(s) => got.push(s),
                        None => break,
                    }
                }
                for _ in 0..5 {
                    if is.next_sample().is_none() {
                        nones += 1;
                    }
                }
            }
            ensure!(got.len() as u64 == len * chans, "interleaved output yielded {} samples, expected frames x channels = {} x {}", got.len(), len, chans);
            ensure!(got == expect, "interleaved samples differ from the frames in channel order");
            ensure!(nones == 5, "interleaved output produced a sample after returning None");
            if c.mode == Mode::InterleavedIter {
                vp_core::iterlaws::iter_laws("into_interleaved_samples().into_iter()", || build::<F>(&c.tree, &mut Built::default()).into_interleaved_samples().into_iter(), &expect, true)?;
            }
        }
        Mode::Borrowed => {
            fn drive<S: Signal>(mut s: S, n: u64, l: Option<u64>, exp: &dyn Fn(u64) -> S::Frame) -> CheckResult
            where
                S::Frame: std::fmt::Debug + PartialEq,
            {
                for k in 0..n {
                    let (ex, want) = (s.is_exhausted(), l.map_or(false, |len| k >= len));
                    ensure!(ex == want, "through a &mut borrow, before pull {}: is_exhausted() = {}, but the signal ends after {:?} frames", k, ex, l);
                    let (got, m) = (s.next(), exp(k));
                    ensure!(got == m, "through a &mut borrow, frame {}: got {:?}, expected {:?}", k, got, m);
                }
                Ok(())
            }
            let mut sig = build::<F>(&c.tree, &mut b);
            let n = l.unwrap_or(INFINITE_WINDOW) + c.extra;
            drive(&mut sig, n, l, &|k| model::<F>(&c.tree, k))?;
            if let Some(len) = l {
                let mut sig = build::<F>(&c.tree, &mut Built::default());
                let got = sig.by_ref().until_exhausted().take(len as usize + 10).count() as u64;
                ensure!(got == len, "by_ref().until_exhausted() yields {} frames, the signal has exactly {}", got, len);
                ensure!(sig.is_exhausted(), "after by_ref().until_exhausted() the owner does not report exhaustion");
            }
            st.class("consumed through a &mut borrow");
        }
        Mode::Lift => {
            let len = leaf_lens.first().copied().flatten().unwrap_or(0);
            let frames: Vec<F> = (0..len).map(F::leaf).collect();
            let mut it = signal::lift(frames.clone(), |s| s.scale_amp(F::gain(0.5)).delay(0));
            for k in 0..len {
                match it.next() {
                    Some(f) => ensure!(f == frames[k as usize].scale_amp(F::gain(0.5)), "lift item {}: got {:?}", k, f),
                    None => return Err(format!("lift stopped after {} frames, expected {}", k, len)),
                }
            }
            none5(&mut it, "lift")?;
        }
    }
    Ok(())
}

pub fn check(c: &Case, st: &mut Stats) -> CheckResult {
    crate::with_ft!(c.ft, run_typed(c, st))
}

fn modes() -> impl Strategy<Value = Mode> {
    prop_oneof![
        4 => Just(Mode::Step),
        3 => Just(Mode::UntilExhausted),
        2 => (0u64..50).prop_map(Mode::Take),
        2 => Just(Mode::InterleavedIter),
        1 => Just(Mode::NextSample),
        1 => Just(Mode::Lift),
        2 => Just(Mode::Borrowed),
    ]
}

// ---------------------------------------------------------------- interleaved output cloned mid-frame

/// interleaved-sample output is a value: a clone taken after k samples (k not necessarily a multiple
/// of the channel count) must continue with exactly the samples that were still owed
#[derive(Clone, Debug, Serialize, Deserialize)]
pub struct CloneCase {
    pub ft: FT,
    pub len: u64,
    pub split: u64,
    pub iterator_form: bool,
}

fn clone_typed<F: TF + Clone>(c: &CloneCase, st: &mut Stats) -> CheckResult
where
    F::Signed: std::fmt::Debug + 'static,
    F::Float: std::fmt::Debug + 'static,
    F::Channels: Clone,
{
    let chans = F::CHANNELS as u64;
    let frames: Vec<F> = (0..c.len).map(F::leaf).collect();
    let all: Vec<F::Sample> = frames.iter().flat_map(|f| f.channels()).collect();
    let k = (c.split.min(all.len() as u64)) as usize;
    st.nt(chans > 1 && k as u64 % chans != 0);
    st.class_if(chans > 1 && k as u64 % chans != 0, "interleaved output cloned in the middle of a frame");
    let tail = &all[k..];
    if c.iterator_form {
        let mut it = signal::from_iter(frames.clone()).into_interleaved_samples().into_iter();
        for j in 0..k {
            ensure!(it.next() == Some(all[j]), "sample {} differs before the clone", j);
        }
        let mut cl = it.clone();
        let a: Vec<F::Sample> = it.by_ref().take(tail.len() + 4).collect();
        let b: Vec<F::Sample> = cl.by_ref().take(tail.len() + 4).collect();
        ensure!(a == tail, "original interleaved iterator after {} samples yields {} more, expected {}", k, a.len(), tail.len());
        ensure!(b == tail, "a clone taken after {} of {} samples ({} channels) yields {} samples, expected the {} samples still owed", k, all.len(), chans, b.len(), tail.len());
        ensure!(it.next().is_none() && cl.next().is_none(), "interleaved iterator yields a sample after None");
    } else {
        let mut is = signal::from_iter(frames.clone()).into_interleaved_samples();
        for j in 0..k {
            ensure!(is.next_sample() == Some(all[j]), "sample {} differs before the clone", j);
        }
        let mut cl = is.clone();
        let mut b = Vec::new();
        while let Some(s) = cl.next_sample() {
            b.push(s);
            if b.len() > tail.len() + 4 {
                break;
            }
        }
        ensure!(b == tail, "a clone taken after {} of {} samples ({} channels) yields {} samples, expected the {} still owed", k, all.len(), chans, b.len(), tail.len());
        let mut a = Vec::new();
        while let Some(s) = is.next_sample() {
            a.push(s);
            if a.len() > tail.len() + 4 {
                break;
            }
        }
        ensure!(a == tail, "original after the clone yields {} samples, expected {}", a.len(), tail.len());
    }
    Ok(())
}

pub fn check_clone(c: &CloneCase, st: &mut Stats) -> CheckResult {
    match c.ft {
        FT::F32 => clone_typed::<f32>(c, st),
        FT::F32x2 => clone_typed::<[f32; 2]>(c, st),
        FT::F64x4 => clone_typed::<[f64; 4]>(c, st),
        FT::I16x2 => clone_typed::<[i16; 2]>(c, st),
        FT::U8x3 => clone_typed::<[u8; 3]>(c, st),
        FT::I32x1 => clone_typed::<[i32; 1]>(c, st),
        FT::U16x2 => clone_typed::<[u16; 2]>(c, st),
        FT::I24 => clone_typed::<dasp_sample::I24>(c, st),
    }
}

// ---------------------------------------------------------------- combining adaptors outside the tree: mul_hz, bus outputs

#[derive(Clone, Debug, Serialize, Deserialize)]
pub enum CombCase {
    /// `source.mul_hz(interp, control)`: a source of `src_len` frames, a control signal of `ctl_len` values, all equal to `ratio_q`/4
    MulHz { src_len: u64, ctl_len: u64, ratio_q: u32, linear: bool },
    /// a bus over a source of `src_len` frames with `outputs` outputs attached up front; `schedule[k]` names the output that
    /// pulls next (an output that is already exhausted does not pull, as a consumer using until_exhausted would not)
    Bus {
        src_len: u64,
        outputs: usize,
        schedule: Vec<usize>,
        /// schedule steps before which one more output is attached
        #[serde(default)]
        late: Vec<usize>,
    },
    /// a plain rate converter at constant ratio `ratio_q`/4 over a source of `src_len` frames: it must end
    Conv { src_len: u64, ratio_q: u32, linear: bool },
    /// `rate.hz(frequency signal of len frames)` used as a signal in its own right (and under a pointwise adaptor)
    HzSignal { len: u64, scaled: bool },
    /// `until_exhausted()` over a signal whose exhaustion flag would flip back if it were pulled once more: a buffered
    /// signal (capacity >= 2) or an upsampling converter; after the first None the iterator must stay finished
    StaysFinished { src_len: u64, cap: usize, upsample: bool },
    /// a length-preserving wrapper that is not a tree node, observed only through the `Signal` trait (generic code):
    /// 0 = `.rms(ring)`, 1 = `.detect_envelope(detector)`, 4 = rms under detect_envelope (the `boxed` module of this
    /// version is never compiled - its cfg attribute says `features` - so there is no `Box<S>: Signal` to observe)
    Wrapped { src_len: u64, kind: u8 },
}

/// exhaustion of a length-preserving signal as generic code sees it (trait method calls only)
fn len_preserving<S: Signal>(mk: &dyn Fn() -> S, n: u64, what: &str) -> CheckResult {
    let mut s = mk();
    for k in 0..n + 3 {
        let ex = s.is_exhausted();
        ensure!(ex == (k >= n), "{} over a source of {} frames: before frame {} is_exhausted() = {}", what, n, k, ex);
        let _ = s.next();
    }
    let c = mk().until_exhausted().take(n as usize + 50).count() as u64;
    ensure!(c == n, "{} over a source of {} frames: until_exhausted() yields {} frames", what, n, c);
    let c = mk().map(|f| f).until_exhausted().take(n as usize + 50).count() as u64;
    ensure!(c == n, "{} over a source of {} frames, under map: until_exhausted() yields {} frames", what, n, c);
    let mut s = mk();
    let c = s.by_ref().until_exhausted().take(n as usize + 50).count() as u64;
    ensure!(c == n, "{} over a source of {} frames, through by_ref(): until_exhausted() yields {} frames", what, n, c);
    let c = mk().take(n as usize + 2).count() as u64;
    ensure!(c == n + 2, "{}: take(n + 2) yields {} frames, expected {} (equilibrium padding)", what, c, n + 2);
    Ok(())
}

fn comb_src(len: u64) -> signal::FromIterator<std::vec::IntoIter<f64>> {
    signal::from_iter((0..len).map(|i| 1.0 + i as f64).collect::<Vec<f64>>())
}

pub fn check_comb(c: &CombCase, st: &mut Stats) -> CheckResult {
    use dasp_interpolate::{floor::Floor, linear::Linear};
    use dasp_signal::interpolate::Converter;
    match c {
        CombCase::MulHz { src_len, ctl_len, ratio_q, linear } => {
            ensure!(*ratio_q >= 1, "bad case: ratio must be > 0");
            let r = *ratio_q as f64 / 4.0;
            let ctl = || signal::from_iter(vec![r; *ctl_len as usize]);
            // reference for the carrier side: a plain converter at the same constant ratio (its exhaustion is C08's subject)
            macro_rules! go {
                ($mk:expr) => {{
                    let (mut s1, mut s2, mut s3) = (comb_src(*src_len), comb_src(*src_len), comb_src(*src_len));
                    let (i1, i2, i3) = ($mk(&mut s1), $mk(&mut s2), $mk(&mut s3));
                    let mut mh = s1.mul_hz(i1, ctl());
                    let mut twin = Converter::scale_playback_hz(s2, i2, r);
                    let mut k = 0u64;
                    let mut by_ctl = false;
                    loop {
                        let carrier_done = twin.is_exhausted();
                        let ctl_done = k >= *ctl_len;
                        let exp = carrier_done || ctl_done;
                        let got = mh.is_exhausted();
                        ensure!(got == exp, "mul_hz over a source of {} frames and {} multiplier values (ratio {}), before output {}: is_exhausted() = {}, expected {} (carrier side exhausted: {}, multiplier signal exhausted: {})", src_len, ctl_len, r, k, got, exp, carrier_done, ctl_done);
                        if exp {
                            by_ctl = ctl_done && !carrier_done;
                            break;
                        }
                        let (a, b) = (mh.next(), twin.next());
                        ensure!(a == b, "mul_hz output {} = {}, a converter at the same constant ratio {} yields {}", k, a, r, b);
                        k += 1;
                        ensure!(k <= *ctl_len, "harness: did not stop");
                    }
                    let n = s3.mul_hz(i3, ctl()).until_exhausted().take(k as usize + 10).count() as u64;
                    ensure!(n == k, "until_exhausted() over mul_hz (source {} frames, {} multiplier values, ratio {}) yields {} frames, expected {}", src_len, ctl_len, r, n, k);
                    by_ctl
                }};
            }
            let by_ctl = if *linear {
                go!(|s: &mut signal::FromIterator<std::vec::IntoIter<f64>>| {
                    let a = s.next();
                    Linear::new(a, s.next())
                })
            } else {
                go!(|s: &mut signal::FromIterator<std::vec::IntoIter<f64>>| Floor::new(s.next()))
            };
            st.nt(true);
            st.class_if(by_ctl, "mul_hz: the multiplier signal ends first");
            st.class_if(!by_ctl, "mul_hz: the carrier ends first");
            Ok(())
        }
        CombCase::Conv { src_len, ratio_q, linear } => {
            ensure!(*ratio_q >= 1, "bad case: ratio must be > 0");
            let r = *ratio_q as f64 / 4.0;
            let prime: u64 = if *linear { 2 } else { 1 };
            // R = frames the source still holds after priming; the converter yields ceil((R+1)/r) frames or one more (C08)
            let rr = src_len.saturating_sub(prime);
            let base = (((rr + 1) * 4) + *ratio_q as u64 - 1) / *ratio_q as u64;
            let cap = base as usize + 50;
            let mut s1 = comb_src(*src_len);
            let (n, steps) = if *linear {
                let a = s1.next();
                let i = Linear::new(a, s1.next());
                let n = Converter::scale_playback_hz(s1, i, r).until_exhausted().take(cap).count() as u64;
                let mut s2 = comb_src(*src_len);
                let a = s2.next();
                let i = Linear::new(a, s2.next());
                let mut cv = Converter::scale_playback_hz(s2, i, r);
                let mut k = 0u64;
                while !cv.is_exhausted() && k < cap as u64 {
                    cv.next();
                    k += 1;
                }
                (n, k)
            } else {
                let i = Floor::new(s1.next());
                let n = Converter::scale_playback_hz(s1, i, r).until_exhausted().take(cap).count() as u64;
                let mut s2 = comb_src(*src_len);
                let i = Floor::new(s2.next());
                let mut cv = s2.scale_hz(i, r);
                let mut k = 0u64;
                while !cv.is_exhausted() && k < cap as u64 {
                    cv.next();
                    k += 1;
                }
                (n, k)
            };
            ensure!(n == base || n == base + 1, "a {} converter at ratio {} over a source of {} frames yields {} frames through until_exhausted(), expected {} or {} (it must end)", if *linear { "linear" } else { "floor" }, r, src_len, n, base, base + 1);
            ensure!(steps == n, "stepping the same converter until is_exhausted() takes {} frames, until_exhausted() yields {}", steps, n);
            st.nt(true);
            st.class_if(*ratio_q == 4, "converter at ratio exactly 1 over a finite source");
            Ok(())
        }
        CombCase::StaysFinished { src_len, cap, upsample } => {
            ensure!(*cap >= 1, "bad case: capacity 0");
            let limit = (*src_len as usize + *cap + 4) * 8;
            macro_rules! go {
                ($sig:expr, $what:expr, $lo:expr, $hi:expr) => {{
                    let mut it = $sig.until_exhausted();
                    let n = it.by_ref().take(limit).count();
                    ensure!(n < limit, "{}: until_exhausted() does not end", $what);
                    ensure!(n as u64 >= $lo && (n as u64) < $hi, "{} over a source of {} frames: until_exhausted() yields {} frames, expected at least {} and fewer than {}", $what, src_len, n, $lo, $hi);
                    for j in 0..5 {
                        ensure!(it.next().is_none(), "{} over a source of {} frames: until_exhausted() yielded another frame on call {} after it had returned None ({} frames before that)", $what, src_len, j + 1, n);
                    }
                }};
            }
            if *upsample {
                let mut s = comb_src(*src_len);
                let i = Floor::new(s.next());
                go!(s.scale_hz(i, 1.0 / *cap as f64), format!("a floor converter at ratio 1/{}", cap), 0u64, u64::MAX);
            } else {
                // a buffered signal delivers every source frame and pads by less than one buffer
                go!(comb_src(*src_len).buffered(dasp_ring_buffer::Bounded::from(vec![0.0f64; *cap])), format!("a buffered signal of capacity {}", cap), *src_len, *src_len + *cap as u64);
            }
            st.nt(*cap >= 2);
            st.class("until_exhausted polled again after None");
            Ok(())
        }
        CombCase::Wrapped { src_len, kind } => {
            use dasp_envelope::Detector;
            use dasp_ring_buffer::Fixed;
            let n = *src_len;
            match kind {
                0 => len_preserving(&|| comb_src(n).rms(Fixed::from(vec![0.0f64; 3])), n, "rms adaptor")?,
                1 => len_preserving(&|| comb_src(n).detect_envelope(Detector::peak(1.0, 2.0)), n, "detect_envelope adaptor")?,
                4 => len_preserving(&|| comb_src(n).rms(Fixed::from([0.0f64; 2])).detect_envelope(Detector::rms(Fixed::from([0.0f64; 4]), 0.0, 3.0)), n, "rms adaptor under detect_envelope (rms detector)")?,
                _ => return Err("bad case: unknown wrapper kind".into()),
            }
            st.nt(true);
            st.class("feature-gated adaptors seen through the Signal trait");
            Ok(())
        }
        CombCase::HzSignal { len, scaled } => {
            let freq = || signal::from_iter((0..*len).map(|i| 100.0 + i as f64).collect::<Vec<f64>>());
            let rate = signal::rate(1000.0);
            macro_rules! go {
                ($mk:expr) => {{
                    let mut s = $mk;
                    for k in 0..*len + 3 {
                        let (got, exp) = (s.is_exhausted(), k >= *len);
                        ensure!(got == exp, "rate.hz(signal of {} frames){}: before pull {} is_exhausted() = {}, expected {}", len, if *scaled { ".scale_amp(..)" } else { "" }, k, got, exp);
                        let _ = s.next();
                    }
                    let n = $mk.until_exhausted().take(*len as usize + 10).count() as u64;
                    ensure!(n == *len, "rate.hz(signal of {} frames){}: until_exhausted() yields {} frames", len, if *scaled { ".scale_amp(..)" } else { "" }, n);
                }};
            }
            if *scaled {
                go!(rate.hz(freq()).scale_amp(0.5))
            } else {
                go!(rate.hz(freq()))
            }
            st.nt(true);
            st.class("frequency signal (rate.hz) used as a signal");
            Ok(())
        }
        CombCase::Bus { src_len, outputs, schedule, late } => {
            use dasp_signal::bus::SignalBus;
            ensure!(*outputs >= 1, "bad case: no output");
            let l = *src_len;
            let bus = comb_src(l).bus();
            let mut outs: Vec<_> = (0..*outputs).map(|_| bus.send()).collect();
            // absolute stream position of every output (an output attached late starts at the source's position)
            let mut pos = vec![0u64; *outputs];
            let mut lagging_while_done = false;
            let mut attached_late_behind = false;
            let all_flags = |outs: &Vec<_>, pos: &Vec<u64>, what: &str| -> CheckResult {
                for j in 0..pos.len() {
                    let o: &dasp_signal::bus::Output<_> = &outs[j];
                    let (got, exp) = (o.is_exhausted(), pos[j] >= l);
                    ensure!(got == exp, "{}: output {} stands at frame {} of the source's {} frames (others: {:?}) but is_exhausted() = {}", what, j, pos[j], l, pos, got);
                }
                Ok(())
            };
            all_flags(&outs, &pos, "initially")?;
            for (k, i) in schedule.iter().enumerate() {
                if late.contains(&k) && outs.len() < 6 {
                    // the new output's stream begins with the first frame nobody has pulled yet
                    let p = pos.iter().copied().max().unwrap_or(0);
                    attached_late_behind |= pos.iter().any(|q| *q < p);
                    outs.push(bus.send());
                    pos.push(p);
                    all_flags(&outs, &pos, &format!("after attaching output {} before step {}", outs.len() - 1, k))?;
                }
                let i = *i % outs.len();
                if pos[i] >= l {
                    continue;
                }
                let got = outs[i].next();
                ensure!(got == 1.0 + pos[i] as f64, "step {}: output {} got {}, expected source frame {}", k, i, got, pos[i]);
                pos[i] += 1;
                all_flags(&outs, &pos, &format!("after step {} (output {} pulled)", k, i))?;
                lagging_while_done |= pos.iter().any(|r| *r >= l) && pos.iter().any(|r| *r < l);
            }
            for (j, o) in outs.into_iter().enumerate() {
                let rest = o.until_exhausted().take((l - pos[j]) as usize + 10).count() as u64;
                ensure!(rest == l - pos[j], "output {} stood at frame {} of {}; until_exhausted() then yields {} more, expected {}", j, pos[j], l, rest, l - pos[j]);
            }
            st.nt(*outputs >= 2 || !late.is_empty());
            st.class_if(lagging_while_done, "bus: one output exhausted while another lags");
            st.class_if(attached_late_behind, "bus: output attached while another output lags");
            Ok(())
        }
    }
}

// ---------------------------------------------------------------- the silence after the end is the format's true mid-point

/// What a finished signal, a delay's lead-in and `signal::equilibrium()` yield must be the amplitude-0 value of the
/// format (raw mid-point of an unsigned format, 0 of a signed one, 0.0 of a float), for all 14 formats — stated
/// independently of the library's own EQUILIBRIUM constants.
#[derive(Clone, Debug, Serialize, Deserialize)]
pub struct SilenceCase {
    pub kind: vp_core::fmt::Kind,
}

pub fn check_silence(c: &SilenceCase, st: &mut Stats) -> CheckResult {
    use dasp_sample::{I24, I48, U24, U48};
    use vp_core::fmt::{Fmt, Kind, Val};
    st.nt(true);
    let zero = match c.kind {
        Kind::Int { .. } => Val::I(c.kind.eq_raw()),
        Kind::F32 => Val::F32(0.0),
        Kind::F64 => Val::F64(0.0),
    };
    macro_rules! one {
        ($($T:ty),*) => {$(
            if c.kind == <$T as Fmt>::KIND {
                let is_zero = |f: [$T; 2], what: &str| -> CheckResult {
                    ensure!(f[0].to_val() == zero && f[1].to_val() == zero, "[{}; 2]: {} yields {:?}, the format's amplitude-0 value is {:?}", c.kind.name(), what, f, zero);
                    Ok(())
                };
                let one_frame = vec![[<$T as Fmt>::from_val(zero); 2]; 1];
                let mut s = signal::from_iter(one_frame.clone());
                let _ = s.next();
                is_zero(s.next(), "a finished from_iter signal")?;
                let mut s = signal::from_interleaved_samples_iter::<_, [$T; 2]>(Vec::<$T>::new());
                is_zero(s.next(), "an empty interleaved-samples signal")?;
                is_zero(signal::from_iter(one_frame.clone()).delay(1).next(), "the lead-in of delay(1)")?;
                is_zero(signal::equilibrium::<[$T; 2]>().next(), "signal::equilibrium()")?;
                let padded: Vec<[$T; 2]> = signal::from_iter(Vec::<[$T; 2]>::new()).take(2).collect();
                ensure!(padded.len() == 2, "take(2) over an empty signal yields {} frames", padded.len());
                is_zero(padded[1], "take(n) past the end of its source")?;
                return Ok(());
            }
        )*};
    }
    one!(i8, i16, I24, i32, I48, i64, u8, u16, U24, u32, U48, u64, f32, f64);
    Err("bad case: unknown format".into())
}

pub fn run(ctx: &mut Ctx) {
    ctx.set_rule(
        "cases are (frame type with 1..4 channels, adaptor tree over finite sources, consumption mode, extra pulls after exhaustion); sources are signal::from_iter, \
         signal::from_interleaved_samples_iter (with 0..channels-1 trailing samples of an incomplete frame) or instrumented probes; enumerated: every single adaptor and every pair of adaptors x source \
         length 0..=12 x 4 channel counts x delay 0..=3 x every consumption mode, two-source adaptors with every (L1, L2) <= 6; random: trees to depth 4 (thorough 6); the combining adaptors that are not tree nodes: mul_hz with every (source length <= 8, multiplier-signal length <= 12, ratio k/4 <= 3, floor|linear) and bus outputs under random pull schedules, plain converters at every ratio k/4 <= 4 over sources of 0..=12 frames (they must end, after ceil((R+1)/r) frames or one more), rate.hz(finite frequency signal) used as a signal; non-trivial: incomplete trailing frame, \
         length 0 or 1, two sources of different length, delay over a finite source, or extra pulls after exhaustion",
    );
    ctx.assume("stream model: a finite source yields its complete frames, then equilibrium; pointwise adaptors keep the length, two-source adaptors take the minimum, delay(k) adds k; is_exhausted() is compared before and after every next()");
    ctx.assume("mul_hz: exhausted iff the multiplier signal is exhausted or a plain converter at the same constant ratio is (the converter's own exhaustion rule is C08's subject); bus output: exhausted iff it has received every source frame, outputs never pull once exhausted");
    for c in ["non-fused source iterator (yields items again after None)", "interleaved input with a trailing incomplete frame", "zero-length signal", "two sources of different length", "delay over a finite source", "pulls past exhaustion", "consumed through a &mut borrow"] {
        ctx.require_class(c);
    }

    // enumerated catalogue
    let fts = [FT::F32, FT::F32x2, FT::U8x3, FT::F64x4];
    let unary: Vec<fn(Node, u8) -> Node> = vec![
        |c, _| c,
        |c, _| Node::Map(Box::new(c)),
        |c, _| Node::ScaleAmp(Box::new(c), 2),
        |c, _| Node::OffsetAmp(Box::new(c), 4),
        |c, _| Node::ScalePerCh(Box::new(c), 3),
        |c, _| Node::OffsetPerCh(Box::new(c), 0),
        |c, _| Node::ClipAmp(Box::new(c), 7),
        |c, _| Node::Inspect(Box::new(c)),
        |c, d| Node::Delay(Box::new(c), d),
        |c, d| Node::ByRef(Box::new(c), d),
    ];
    let all_modes = |l: u64| vec![Mode::Step, Mode::UntilExhausted, Mode::Take(l / 2), Mode::Take(l + 2), Mode::InterleavedIter, Mode::NextSample, Mode::Lift, Mode::Borrowed];
    let max_l = ctx.pick(12u64, 16);
    let mut cases = Vec::new();
    for &ft in &fts {
        let ch = match ft { FT::F32 => 1, FT::F32x2 => 2, FT::U8x3 => 3, _ => 4 };
        for l in 0..=max_l {
            let mut leaves = vec![LeafKind::FromIter, LeafKind::Probe, LeafKind::FromIterRevive { nones: 1 }, LeafKind::FromInterleavedRevive { nones: 2 }];
            for extra in 0..ch {
                leaves.push(LeafKind::FromInterleaved { extra });
            }
            for &kind in &leaves {
                for d in 0..=3u8 {
                    for (ia, a) in unary.iter().enumerate() {
                        for (ib, b2) in unary.iter().enumerate() {
                            // delay parameter only matters for the delay / by_ref entries
                            if d > 0 && !(ia >= 8 || ib >= 8) {
                                continue;
                            }
                            let tree = b2(a(Node::Leaf { len: Some(l), kind }, d), d);
                            for mode in all_modes(l) {
                                if mode == Mode::Lift && (ia != 0 || ib != 0 || d != 0) {
                                    continue;
                                }
                                for extra in [0u64, 5] {
                                    if extra > 0 && mode != Mode::Step {
                                        continue;
                                    }
                                    cases.push(Case { ft, tree: tree.clone(), mode, extra });
                                }
                            }
                        }
                    }
                }
            }
        }
    }
    let n = cases.len() as u64;
    ctx.par_enumerate("catalogue-one-source", true, n, move |i| cases[i as usize].clone(), check);

    let mut cases = Vec::new();
    for &ft in &fts {
        for l1 in 0..=6u64 {
            for l2 in 0..=6u64 {
                for kind in [LeafKind::FromIter, LeafKind::FromInterleaved { extra: 1 }] {
                    let a = || Node::Leaf { len: Some(l1), kind };
                    let trees = vec![
                        Node::AddAmp(Box::new(a()), Some(l2)),
                        Node::MulAmp(Box::new(a()), Some(l2)),
                        Node::ZipMap(Box::new(a()), Box::new(Node::Leaf { len: Some(l2), kind: LeafKind::FromIter })),
                        Node::ZipMap(Box::new(Node::Delay(Box::new(a()), 2)), Box::new(Node::Leaf { len: Some(l2), kind })),
                        Node::AddAmp(Box::new(Node::Delay(Box::new(a()), 1)), Some(l2)),
                    ];
                    for tree in trees {
                        for mode in [Mode::Step, Mode::UntilExhausted, Mode::InterleavedIter, Mode::Take(l1 + 1)] {
                            cases.push(Case { ft, tree: tree.clone(), mode, extra: if mode == Mode::Step { 3 } else { 0 } });
                        }
                    }
                }
            }
        }
    }
    let n = cases.len() as u64;
    ctx.par_enumerate("catalogue-two-sources", true, n, move |i| cases[i as usize].clone(), check);

    // interleaved output cloned after every possible number of samples
    ctx.require_class("interleaved output cloned in the middle of a frame");
    let mut cases = Vec::new();
    for &ft in &FTS {
        for len in 0..=5u64 {
            for split in 0..=(len * 4 + 1) {
                for iterator_form in [false, true] {
                    cases.push(CloneCase { ft, len, split, iterator_form });
                }
            }
        }
    }
    ctx.enumerate("interleaved-clone", true, cases.into_iter(), check_clone);

    // combining adaptors that are not tree nodes: mul_hz (carrier + multiplier signal) and bus outputs
    for c in ["mul_hz: the multiplier signal ends first", "mul_hz: the carrier ends first", "bus: one output exhausted while another lags", "bus: output attached while another output lags"] {
        ctx.require_class(c);
    }
    let mut cases = Vec::new();
    for src_len in 0..=8u64 {
        for ctl_len in 0..=12u64 {
            for ratio_q in 1..=12u32 {
                for linear in [false, true] {
                    cases.push(CombCase::MulHz { src_len, ctl_len, ratio_q, linear });
                }
            }
        }
    }
    ctx.enumerate("mul_hz-exhaustion", true, cases.into_iter(), check_comb);
    let mut cases = Vec::new();
    for src_len in 0..=12u64 {
        for ratio_q in 1..=16u32 {
            for linear in [false, true] {
                cases.push(CombCase::Conv { src_len, ratio_q, linear });
            }
        }
        for scaled in [false, true] {
            cases.push(CombCase::HzSignal { len: src_len, scaled });
        }
        for kind in [0u8, 1, 4] {
            cases.push(CombCase::Wrapped { src_len, kind });
        }
        for cap in 1..=5usize {
            for upsample in [false, true] {
                cases.push(CombCase::StaysFinished { src_len, cap, upsample });
            }
        }
    }
    ctx.require_class("converter at ratio exactly 1 over a finite source");
    ctx.require_class("frequency signal (rate.hz) used as a signal");
    ctx.require_class("until_exhausted polled again after None");
    ctx.require_class("feature-gated adaptors seen through the Signal trait");
    ctx.enumerate("converter-and-hz-exhaustion", true, cases.into_iter(), check_comb);
    let bus = (0u64..10, 1usize..=4, proptest::collection::vec(0usize..6, 0..40), proptest::collection::vec(0usize..30, 0..3)).prop_map(|(src_len, outputs, schedule, late)| CombCase::Bus { src_len, outputs, schedule, late });
    ctx.prop("bus-output-exhaustion", ctx.pick(5_000, 50_000), bus, check_comb);

    // silence after the end == the amplitude-0 value of each of the 14 formats
    let kinds: Vec<vp_core::fmt::Kind> = vp_core::fmt::INT_KINDS.iter().copied().chain([vp_core::fmt::Kind::F32, vp_core::fmt::Kind::F64]).collect();
    ctx.enumerate("silence-is-the-midpoint", true, kinds.into_iter().map(|kind| SilenceCase { kind }), check_silence);

    let depth = ctx.pick(4u32, 6);
    let strat = (0usize..8, tree_strategy(depth, false), modes(), prop_oneof![2 => Just(0u64), 1 => 1u64..6]).prop_map(|(f, mut tree, mode, extra)| {
        // binary second operands finite too (so that exhaustion is reachable)
        let _ = &mut tree;
        Case { ft: FTS[f], tree, mode, extra }
    });
    ctx.prop("random-trees", ctx.pick(30_000, 300_000), strat, check);
}
