//! C19 — rectifiers (|x|, half waves) and the one-pole envelope follower.

use dasp_envelope::detect::{Detect, Detector, Peak};
use dasp_frame::Frame;
use dasp_peak as peak;
use dasp_ring_buffer::Fixed;
use dasp_rms::Rms;
use dasp_sample::{Sample, I24, U24};
use dasp_signal::envelope::SignalEnvelope;
use dasp_signal::{self as signal, Signal};
use proptest::prelude::*;
use serde::{Deserialize, Serialize};
use vp_core::fmt::{self, boundary_raws, Fmt, Kind, Val};
use vp_core::{ensure, pan, CheckResult, Ctx, Stats};

// ------------------------------------------------------------------------------ rectifiers

#[derive(Clone, Debug, Serialize, Deserialize)]
pub struct RectCase {
    pub kind: Kind,
    /// encoded samples (raw / bits), 1..=4 channels
    pub chans: Vec<i128>,
}

fn dec(k: Kind, e: i128) -> Val {
    match k {
        Kind::Int { .. } => Val::I(e),
        Kind::F32 => Val::F32(f32::from_bits(e as u32)),
        Kind::F64 => Val::F64(f64::from_bits(e as u64)),
    }
}

fn veq(a: Val, b: Val) -> bool {
    match (a, b) {
        (Val::I(x), Val::I(y)) => x == y,
        (Val::F32(x), Val::F32(y)) => x == y,
        (Val::F64(x), Val::F64(y)) => x == y,
        _ => false,
    }
}

fn rect_typed<S, const C: usize>(c: &RectCase, st: &mut Stats) -> CheckResult
where
    S: Fmt,
    S::Signed: Fmt,
{
    let k = S::KIND;
    let sk = k.signed_companion();
    let vals: Vec<Val> = c.chans.iter().map(|e| dec(k, *e)).collect();
    let frame: [S; C] = core::array::from_fn(|i| S::from_val(vals[i]));
    for v in &vals {
        if let Val::I(r) = v {
            ensure!(k.in_range_raw(*r) && *r != k.min_raw(), "bad case: the format minimum has no representable negation (outside the property's domain)");
        }
    }
    st.nt(matches!(k, Kind::Int { signed: false, .. }) || C > 1);
    st.class_if(matches!(k, Kind::Int { signed: false, .. }), "unsigned format");
    let fw = peak::full_wave(frame);
    let ph = peak::positive_half_wave(frame);
    let nh = peak::negative_half_wave(frame);
    // the Rectifier trait objects agree with the functions
    use peak::Rectifier;
    ensure!(peak::FullWave.rectify(frame) == fw && peak::PositiveHalfWave.rectify(frame) == ph && peak::NegativeHalfWave.rectify(frame) == nh, "Rectifier impls disagree with the functions");
    for i in 0..C {
        let s = vals[i];
        // |signed amplitude| in the signed companion
        let sg = fmt::conv(k, s, sk).ok_or("conv")?;
        let exp_fw = match sg {
            Val::I(a) => Val::I(a.abs()),
            Val::F32(x) => Val::F32(x.abs()),
            Val::F64(x) => Val::F64(x.abs()),
        };
        ensure!(veq(fw[i].to_val(), exp_fw), "{}: full_wave({:?}) channel {} = {:?}, |signed amplitude| = {:?}", k.name(), s, i, fw[i], exp_fw);
        let (exp_p, exp_n) = match s {
            Val::I(r) => (Val::I(r.max(k.eq_raw())), Val::I(r.min(k.eq_raw()))),
            Val::F32(x) => (Val::F32(if x < 0.0 { 0.0 } else { x }), Val::F32(if x > 0.0 { 0.0 } else { x })),
            Val::F64(x) => (Val::F64(if x < 0.0 { 0.0 } else { x }), Val::F64(if x > 0.0 { 0.0 } else { x })),
        };
        ensure!(veq(ph[i].to_val(), exp_p), "{}: positive_half_wave({:?}) channel {} = {:?}, expected {:?}", k.name(), s, i, ph[i], exp_p);
        ensure!(veq(nh[i].to_val(), exp_n), "{}: negative_half_wave({:?}) channel {} = {:?}, expected {:?}", k.name(), s, i, nh[i], exp_n);
    }
    Ok(())
}

pub fn check_rect(c: &RectCase, st: &mut Stats) -> CheckResult {
    use dasp_sample::{I48, U48};
    macro_rules! go {
        ($($T:ty),*) => {
            $( if c.kind == <$T as Fmt>::KIND {
                return match c.chans.len() {
                    1 => rect_typed::<$T, 1>(c, st),
                    2 => rect_typed::<$T, 2>(c, st),
                    3 => rect_typed::<$T, 3>(c, st),
                    4 => rect_typed::<$T, 4>(c, st),
                    _ => Err("bad case: 1..=4 channels".into()),
                };
            } )*
        };
    }
    go!(i8, i16, I24, i32, I48, i64, u8, u16, U24, u32, U48, u64, f32, f64);
    Err("bad case: unknown format".into())
}

// ------------------------------------------------------------------------------ envelope

#[derive(Clone, Copy, Debug, PartialEq, Eq, Serialize, Deserialize)]
pub enum FT {
    F32,
    F64x2,
    I16x2,
    I24x1,
    I32x1,
    U8x3,
    U16x2,
}
pub const FTS: [FT; 7] = [FT::F32, FT::F64x2, FT::I16x2, FT::I24x1, FT::I32x1, FT::U8x3, FT::U16x2];

#[derive(Clone, Copy, Debug, PartialEq, Eq, Serialize, Deserialize)]
pub enum Det {
    PeakFull,
    PeakPos,
    PeakNeg,
    Rms(usize),
}

#[derive(Clone, Debug, Serialize, Deserialize)]
pub enum Op {
    /// nominal values in [-1, 1], one per channel (cycled)
    Frame(Vec<f64>),
    SetAttack(f32),
    SetRelease(f32),
    /// an infinite time constant (gain exp(-1/inf) = 1: the envelope holds); separate variants because JSON has no infinity
    SetAttackInf,
    SetReleaseInf,
}

#[derive(Clone, Debug, Serialize, Deserialize)]
pub struct EnvCase {
    pub ft: FT,
    pub det: Det,
    pub attack: f32,
    pub release: f32,
    pub ops: Vec<Op>,
    /// drive the detector through the `detect_envelope` signal adaptor
    pub adaptor: bool,
    /// the detector is constructed with an infinite attack / release time
    #[serde(default)]
    pub attack_inf: bool,
    #[serde(default)]
    pub release_inf: bool,
}

/// nominal value -> sample, never the format minimum; integer amplitudes limited to `cap` of full scale
fn to_sample<S: Fmt>(v: f64, cap: f64) -> S {
    match S::KIND {
        Kind::Int { .. } => {
            let half = S::KIND.half() as f64;
            let lim = (half * cap).min(half - 1.0);
            let a = (v * half).trunc().clamp(-lim, lim);
            S::from_val(Val::I(a as i128 + S::KIND.offset()))
        }
        Kind::F32 => S::from_val(Val::F32(v as f32)),
        Kind::F64 => S::from_val(Val::F64(v)),
    }
}

/// per-channel amplitude as f64 (exact: <= 32-bit integers and floats)
fn amp(v: Val, k: Kind) -> f64 {
    match v {
        Val::I(r) => (r - k.offset()) as f64,
        Val::F32(x) => x as f64,
        Val::F64(x) => x,
    }
}

struct Model {
    attack: f32,
    release: f32,
}

fn gain_interval(frames: f32) -> (f64, f64) {
    if frames == 0.0 {
        return (0.0, 0.0);
    }
    let g = (-1.0 / frames as f64).exp();
    ((g * (1.0 - 1e-5) - 1e-30).max(0.0), (g * (1.0 + 1e-5) + 1e-30).min(1.0))
}

fn check_step(k: Kind, l: Val, d: Val, got: Val, m: &Model, step: usize, ch: usize) -> Result<bool, String> {
    let (la, da, ga) = (amp(l, k), amp(d, k), amp(got, k));
    let attack = la < da;
    let frames = if attack { m.attack } else { m.release };
    let (g_lo, g_hi) = gain_interval(frames);
    let p = k.float_p();
    let ulp_f = 2f64.powi(-(p as i32 - 1));
    let scale = la.abs().max(da.abs());
    let int_lsb = if k.is_int() { 1.0 } else { 0.0 };
    // two units of the Float's subnormal spacing (the envelope of a float format decays into the subnormal range)
    let tiny = if p == 24 { 2.0 * 2f64.powi(-149) } else { 2.0 * 2f64.powi(-1074) };
    let diff = la - da;
    // integer formats: previous - detected is an exact integer subtraction; only its conversion to the Float, the
    // multiplication and the truncation back round, so the allowance scales with |previous - detected|, not with the level
    let w = if k.is_int() { 4.0 * ulp_f * diff.abs() + int_lsb } else { 2.0 * ulp_f * scale + tiny };
    let (e1, e2) = (da + g_lo * diff, da + g_hi * diff);
    let (lo, hi) = (e1.min(e2) - w, e1.max(e2) + w);
    if !(ga >= lo && ga <= hi) {
        return Err(format!(
            "step {} channel {}: envelope {} but detected {} + gain x (previous {} - detected) with gain = exp(-1/{}) in [{}, {}] ({}) gives [{}, {}]",
            step, ch, ga, da, la, frames, g_lo, g_hi, if attack { "attack" } else { "release" }, lo, hi
        ));
    }
    // between the previous envelope and the detected value
    let fits = k.is_int() && k.bits() <= p;
    // overshoot: for integer formats only when |previous - detected| itself is not exactly representable in the Float
    let wb = if fits {
        0.0
    } else if k.is_int() {
        if diff.abs() < 2f64.powi(p as i32) { 0.0 } else { ulp_f * diff.abs() }
    } else {
        tiny + 2.0 * ulp_f * scale
    };
    if !(ga >= la.min(da) - wb && ga <= la.max(da) + wb) {
        return Err(format!("step {} channel {}: envelope {} overshoots: not between the previous envelope {} and the detected value {}", step, ch, ga, la, da));
    }
    if frames == 0.0 && ga != da {
        return Err(format!("step {} channel {}: with a time constant of 0 frames the envelope must equal the detected value {} (got {})", step, ch, da, ga));
    }
    Ok(!attack && la != da)
}

fn env_typed<F, D>(c: &EnvCase, st: &mut Stats, mk_detect: &dyn Fn() -> D, named: &dyn Fn(f32, f32) -> Vec<(&'static str, Detector<F, D>)>) -> CheckResult
where
    F: Frame + 'static,
    F::Sample: Fmt,
    D: Detect<F> + Clone + 'static,
    D::Output: std::fmt::Debug,
    <D::Output as Frame>::Sample: Fmt,
{
    let ok = <<D::Output as Frame>::Sample as Fmt>::KIND;
    let ik = <F::Sample as Fmt>::KIND;
    // F8 (open known finding): i32 near full scale with a gain that rounds to 1.0 — excluded by construction
    let (attack0, release0) = (if c.attack_inf { f32::INFINITY } else { c.attack }, if c.release_inf { f32::INFINITY } else { c.release });
    let has_inf = c.attack_inf || c.release_inf || c.ops.iter().any(|o| matches!(o, Op::SetAttackInf | Op::SetReleaseInf));
    let huge = has_inf || c.attack > 1e7 || c.release > 1e7 || c.ops.iter().any(|o| matches!(o, Op::SetAttack(x) | Op::SetRelease(x) if *x > 1e7));
    let cap = if ik == (Kind::Int { bits: 32, signed: true }) && huge { 0.5 } else { 1.0 };
    let mut model = Model { attack: attack0, release: release0 };
    let mut det = Detector::new(mk_detect(), attack0, release0);
    let mut unchanged = Detector::new(mk_detect(), attack0, release0);
    let mut shadow = mk_detect();
    let mut changed = false;
    let mut l: Vec<Val> = <D::Output as Frame>::EQUILIBRIUM.channels().map(|s| s.to_val()).collect();
    let chans = l.len();
    let mut release_path = false;
    let mut zero_tc = c.attack == 0.0 || c.release == 0.0;
    let mut frames_in: Vec<F> = Vec::new();
    let mut outs: Vec<D::Output> = Vec::new();
    let mut step = 0usize;
    for op in &c.ops {
        match op {
            Op::SetAttack(x) => {
                ensure!(*x >= 0.0 && x.is_finite(), "bad case: negative time constant");
                det.set_attack_frames(*x);
                model.attack = *x;
                changed = true;
                zero_tc |= *x == 0.0;
            }
            Op::SetRelease(x) => {
                ensure!(*x >= 0.0 && x.is_finite(), "bad case: negative time constant");
                det.set_release_frames(*x);
                model.release = *x;
                changed = true;
                zero_tc |= *x == 0.0;
            }
            Op::SetAttackInf => {
                det.set_attack_frames(f32::INFINITY);
                model.attack = f32::INFINITY;
                changed = true;
            }
            Op::SetReleaseInf => {
                det.set_release_frames(f32::INFINITY);
                model.release = f32::INFINITY;
                changed = true;
            }
            Op::Frame(vals) => {
                ensure!(!vals.is_empty(), "bad case: empty frame");
                let mut excluded = false;
                let frame = F::from_fn(|i| {
                    let v = vals[i % vals.len()];
                    if cap < 1.0 && v.abs() > cap {
                        excluded = true;
                    }
                    to_sample::<F::Sample>(v, cap)
                });
                if excluded {
                    st.excluded_known += 1;
                }
                frames_in.push(frame);
                let d_frame = shadow.detect(frame);
                let out = det.next(frame);
                if !changed {
                    let u = unchanged.next(frame);
                    ensure!(u == out, "step {}: two identically configured detectors disagree", step);
                }
                let dv: Vec<Val> = d_frame.channels().map(|s| s.to_val()).collect();
                let gv: Vec<Val> = out.channels().map(|s| s.to_val()).collect();
                for ch in 0..chans {
                    release_path |= check_step(ok, l[ch], dv[ch], gv[ch], &model, step, ch)?;
                }
                l = gv;
                outs.push(out);
                step += 1;
            }
        }
    }
    // changing attack/release mid-stream affects only subsequent frames: replay the prefix before the first change
    if changed {
        let mut det2 = Detector::new(mk_detect(), attack0, release0);
        let mut i = 0;
        for op in &c.ops {
            match op {
                Op::Frame(_) => {
                    let o = det2.next(frames_in[i]);
                    ensure!(o == outs[i], "frame {}: output before the first parameter change differs from the run without changes", i);
                    i += 1;
                }
                _ => break,
            }
        }
    }
    // a detector is a value: a clone taken mid-stream carries the envelope (and the detector stage's state) with it
    {
        let half = c.ops.len() / 2;
        let mut orig = Detector::new(mk_detect(), attack0, release0);
        let mut i = 0;
        let apply = |d: &mut Detector<F, D>, op: &Op, i: usize| -> Option<D::Output> {
            match op {
                Op::SetAttack(x) => d.set_attack_frames(*x),
                Op::SetRelease(x) => d.set_release_frames(*x),
                Op::SetAttackInf => d.set_attack_frames(f32::INFINITY),
                Op::SetReleaseInf => d.set_release_frames(f32::INFINITY),
                Op::Frame(_) => return Some(d.next(frames_in[i])),
            }
            None
        };
        for op in &c.ops[..half] {
            if apply(&mut orig, op, i).is_some() {
                i += 1;
            }
        }
        let mut cl = orig.clone();
        let at = i;
        for op in &c.ops[half..] {
            let (a, b) = (apply(&mut orig, op, i), apply(&mut cl, op, i));
            if let (Some(a), Some(b)) = (a, b) {
                ensure!(b == outs[i] && a == outs[i], "frame {}: a clone taken after {} frames yields {:?}, the cloned detector {:?}, an uninterrupted run {:?}", i, at, b, a, outs[i]);
                i += 1;
            }
        }
        st.class_if(at > 0 && i > at, "detector cloned mid-stream");
    }
    // every other way of constructing the same detector (named constructors, peak_from_rectifier, rms) behaves identically
    for (name, mut alt) in named(attack0, release0) {
        let mut i = 0;
        for op in &c.ops {
            match op {
                Op::SetAttack(x) => alt.set_attack_frames(*x),
                Op::SetRelease(x) => alt.set_release_frames(*x),
                Op::SetAttackInf => alt.set_attack_frames(f32::INFINITY),
                Op::SetReleaseInf => alt.set_release_frames(f32::INFINITY),
                Op::Frame(_) => {
                    let o = alt.next(frames_in[i]);
                    ensure!(o == outs[i], "frame {}: a detector built with {} (attack {}, release {}) yields {:?}, Detector::new with the same detector stage and times yields {:?}", i, name, attack0, release0, o, outs[i]);
                    i += 1;
                }
            }
        }
        st.class("named constructors");
    }
    if c.adaptor {
        // the signal adaptor feeds each source frame to the detector
        let mut ad = signal::from_iter(frames_in.clone()).detect_envelope(Detector::new(mk_detect(), attack0, release0));
        let mut i = 0;
        for op in &c.ops {
            match op {
                Op::SetAttack(x) => ad.set_attack_frames(*x),
                Op::SetRelease(x) => ad.set_release_frames(*x),
                Op::SetAttackInf => ad.set_attack_frames(f32::INFINITY),
                Op::SetReleaseInf => ad.set_release_frames(f32::INFINITY),
                Op::Frame(_) => {
                    ensure!(!ad.is_exhausted(), "adaptor exhausted before frame {}", i);
                    let o = ad.next();
                    ensure!(o == outs[i], "frame {}: detect_envelope adaptor yields {:?}, the detector {:?}", i, o, outs[i]);
                    i += 1;
                }
            }
        }
        ensure!(ad.is_exhausted(), "adaptor not exhausted after its source ended");
        // pulled past the end, the source yields equilibrium frames; each still reaches the detector (the envelope decays, it does not jump)
        for j in 0..5 {
            let (g, e) = (ad.next(), det.next(F::EQUILIBRIUM));
            ensure!(g == e, "{} frames past the end of the source: detect_envelope yields {:?}, the detector fed the same (equilibrium) frames {:?}", j + 1, g, e);
        }
        st.class("detect_envelope adaptor");
    }
    st.nt(release_path || zero_tc || changed || matches!(ik, Kind::Int { signed: false, .. }) || chans > 1);
    st.class_if(release_path, "falling detected value (release path)");
    st.class_if(zero_tc, "zero time constant");
    st.class_if(changed, "parameter change mid-run");
    st.class_if(matches!(ik, Kind::Int { signed: false, .. }), "unsigned format");
    st.class_if(matches!(c.det, Det::Rms(_)), "rms detection");
    st.class_if(huge, "time constant > 1e7 frames (gain rounds to 1.0)");
    st.class_if(has_inf, "infinite time constant (the envelope holds)");
    Ok(())
}

fn env_ft<F>(c: &EnvCase, st: &mut Stats) -> CheckResult
where
    F: Frame + 'static,
    F::Sample: Fmt,
    F::Signed: std::fmt::Debug,
    F::Float: std::fmt::Debug,
    F: std::fmt::Debug,
    <F::Signed as Frame>::Sample: Fmt,
    <F::Float as Frame>::Sample: Fmt,
{
    match c.det {
        Det::PeakFull => env_typed::<F, Peak<peak::FullWave>>(c, st, &|| Peak::full_wave(), &|a, r| vec![("Detector::peak", Detector::peak(a, r)), ("Detector::peak_from_rectifier(FullWave)", Detector::peak_from_rectifier(peak::FullWave, a, r))]),
        Det::PeakPos => env_typed::<F, Peak<peak::PositiveHalfWave>>(c, st, &|| Peak::positive_half_wave(), &|a, r| vec![("Detector::peak_positive_half_wave", Detector::peak_positive_half_wave(a, r)), ("Detector::peak_from_rectifier(PositiveHalfWave)", Detector::peak_from_rectifier(peak::PositiveHalfWave, a, r))]),
        Det::PeakNeg => env_typed::<F, Peak<peak::NegativeHalfWave>>(c, st, &|| Peak::negative_half_wave(), &|a, r| vec![("Detector::peak_negative_half_wave", Detector::peak_negative_half_wave(a, r)), ("Detector::peak_from_rectifier(NegativeHalfWave)", Detector::peak_from_rectifier(peak::NegativeHalfWave, a, r))]),
        Det::Rms(n) => {
            ensure!(n >= 1, "bad case: rms window 0");
            env_typed::<F, Rms<F, Vec<F::Float>>>(c, st, &|| Rms::new(Fixed::from(vec![<F::Float as Frame>::EQUILIBRIUM; n])), &|a, r| vec![("Detector::rms", Detector::rms(Fixed::from(vec![<F::Float as Frame>::EQUILIBRIUM; n]), a, r))])
        }
    }
}

pub fn check_env(c: &EnvCase, st: &mut Stats) -> CheckResult {
    ensure!(c.attack >= 0.0 && c.release >= 0.0 && c.attack.is_finite() && c.release.is_finite(), "bad case: time constants must be >= 0");
    match c.ft {
        FT::F32 => env_ft::<f32>(c, st),
        FT::F64x2 => env_ft::<[f64; 2]>(c, st),
        FT::I16x2 => env_ft::<[i16; 2]>(c, st),
        FT::I24x1 => env_ft::<[I24; 1]>(c, st),
        FT::I32x1 => env_ft::<[i32; 1]>(c, st),
        FT::U8x3 => env_ft::<[u8; 3]>(c, st),
        FT::U16x2 => env_ft::<[u16; 2]>(c, st),
    }
}

/// F8 — the one deterministic probe of the excluded region
pub fn f8_probe() -> Result<(), String> {
    pan::catch(|| {
        let mut d = Detector::<[i32; 1], _>::peak(0.0, 1e9);
        let a = d.next([i32::MAX]);
        let b = d.next([1]);
        (a, b)
    })
    .map_err(|p| format!("Detector::<[i32;1],_>::peak(0.0, 1e9): next([i32::MAX]) then next([1]): {}", p))
    .and_then(|(a, b)| if b[0] >= 1 && b[0] <= a[0] { Ok(()) } else { Err(format!("Detector::<[i32;1],_>::peak(0.0, 1e9): next([i32::MAX]) = {:?} then next([1]) = {:?}: not between the previous envelope and the detected value", a, b)) })
}

fn time_const() -> BoxedStrategy<f32> {
    prop_oneof![
        3 => proptest::sample::select(vec![0.0f32, -0.0, 1.0, 1e-3, 0.5, 10.0, 1e4, 1e9, 3.4e7, 100.0, 2.0, 1e-30]),
        2 => (0.0f32..50.0),
        1 => (0.0f32..1e6),
    ]
    .boxed()
}

pub fn env_strategy() -> impl Strategy<Value = EnvCase> {
    let frame = proptest::collection::vec(
        prop_oneof![3 => (-1.0f64..1.0), 1 => proptest::sample::select(vec![0.0, 0.999, -0.999, 0.5, -0.5, 1e-4]), 1 => (-0.01f64..0.01)],
        1..4,
    );
    let op = prop_oneof![56 => frame.prop_map(Op::Frame), 4 => time_const().prop_map(Op::SetAttack), 4 => time_const().prop_map(Op::SetRelease), 1 => Just(Op::SetAttackInf), 1 => Just(Op::SetReleaseInf)];
    (0usize..7, prop_oneof![1 => Just(Det::PeakFull), 1 => Just(Det::PeakPos), 1 => Just(Det::PeakNeg), 1 => (1usize..=32).prop_map(Det::Rms)], time_const(), time_const(), proptest::collection::vec(op, 1..400), 0usize..6, any::<bool>(), 0usize..64)
        .prop_map(|(f, det, attack, release, mut ops, profile, adaptor, inf)| {
            // profiles: plain, burst then silence (long release), constant input (monotone approach)
            let n = ops.len();
            for (i, o) in ops.iter_mut().enumerate() {
                if let Op::Frame(v) = o {
                    match profile {
                        1 if i > n / 3 => v.iter_mut().for_each(|x| *x *= 1e-3),
                        2 => v.iter_mut().for_each(|x| *x = 0.7),
                        // float frame types only (FTS[0], FTS[1]): amplitudes up to 4 (any finite input)
                        4 if f < 2 => v.iter_mut().for_each(|x| *x *= 4.0),
                        // f64 frames only (FTS[1]): finite amplitudes beyond the f32 range
                        5 if f == 1 => v.iter_mut().for_each(|x| *x *= 1e39),
                        _ => {}
                    }
                }
            }
            EnvCase { ft: FTS[f], det, attack, release, ops, adaptor, attack_inf: inf % 16 == 0, release_inf: inf % 16 == 1 }
        })
}

pub fn run(ctx: &mut Ctx) {
    ctx.set_rule(
        "rectifiers: (format, 1..=4 channel values) — every value of the 8/16-bit formats, boundary sets and random values of the others, the format minimum of integer formats excluded (no representable negation); \
         envelope: (frame type out of f32, [f64;2], [i16;2], [I24;1], [i32;1], [u8;3], [u16;2]; peak full/positive/negative or rms window 1..=32; attack and release in {0, -0.0 (a zero: -0.0 >= 0), 1, 1e-3, 1e-30, 0.5, 10, 1e4, 1e9, +infinity, random >= 0}; \
         history of up to 400 frames with set_attack_frames / set_release_frames at random steps; direct detector or detect_envelope adaptor); non-trivial: release path taken, zero time constant, parameter change mid-run, unsigned or multi-channel format",
    );
    ctx.assume("rectifier oracle: |amplitude| in the signed companion, max(s, equilibrium), min(s, equilibrium), exact; envelope oracle per channel: out in d + [g_lo, g_hi] (l - d) with g = exp(-1/frames) in f64 widened by 1e-5 relative (f32 powf), result widened by 2 ulp of the format's Float at scale max(|l|,|d|) for float formats, and by 1 LSB + 4 ulp of |l - d| for integer formats (their l - d is an exact integer subtraction); d is observed through a second instance of the same detector stage (rectifiers are checked here, RMS in C11)");
    ctx.assume("integer inputs exclude the format minimum (the statement's premise)");
    for c in ["falling detected value (release path)", "zero time constant", "parameter change mid-run", "unsigned format", "rms detection", "detect_envelope adaptor", "time constant > 1e7 frames (gain rounds to 1.0)", "infinite time constant (the envelope holds)", "named constructors", "detector cloned mid-stream"] {
        ctx.require_class(c);
    }

    // rectifiers, exhaustive 8/16-bit
    let small: Vec<Kind> = fmt::INT_KINDS.iter().copied().filter(|k| k.bits() <= 16).collect();
    let mut offs = vec![0u64];
    for k in &small {
        offs.push(offs.last().unwrap() + (1u64 << k.bits()) - 1);
    }
    let total = *offs.last().unwrap();
    let s2 = small.clone();
    ctx.par_enumerate(
        "rectifiers/exhaustive-8-16",
        true,
        total,
        move |i| {
            let j = offs.partition_point(|&o| o <= i) - 1;
            let k = s2[j];
            let r = k.min_raw() + 1 + (i - offs[j]) as i128;
            // second channel: the mirrored value, third: equilibrium
            let m = k.eq_raw() - (r - k.eq_raw());
            RectCase { kind: k, chans: vec![r, m.clamp(k.min_raw() + 1, k.max_raw()), k.eq_raw()][..1 + (i % 3) as usize].to_vec() }
        },
        check_rect,
    );
    let mut cases = Vec::new();
    for &k in fmt::INT_KINDS.iter().filter(|k| k.bits() > 16) {
        for r in boundary_raws(k) {
            if r != k.min_raw() {
                cases.push(RectCase { kind: k, chans: vec![r, k.eq_raw(), k.max_raw(), k.min_raw() + 1] });
            }
        }
    }
    for x in [0.0f64, -0.0, 1.0, -1.0, 0.5, -0.5, 1e-300, -1e-300, 3.5, -3.5] {
        cases.push(RectCase { kind: Kind::F64, chans: vec![x.to_bits() as i128, (-x).to_bits() as i128] });
        cases.push(RectCase { kind: Kind::F32, chans: vec![(x as f32).to_bits() as i128] });
    }
    ctx.enumerate("rectifiers/boundaries", true, cases.into_iter(), check_rect);
    let strat = (0usize..14, proptest::collection::vec(any::<u64>(), 1..=4)).prop_map(|(ki, raw)| {
        let k = crate::c19::ALL_KINDS[ki];
        let chans = raw
            .iter()
            .map(|r| match k {
                Kind::Int { .. } => {
                    let span = (k.max_raw() - k.min_raw()) as u128; // excludes the minimum
                    k.min_raw() + 1 + (*r as u128 % span) as i128
                }
                Kind::F32 => (((*r % 2_000_001) as f32 / 1_000_000.0) - 1.0).to_bits() as i128,
                Kind::F64 => (((*r % 2_000_000_001) as f64 / 1_000_000_000.0) - 1.0).to_bits() as i128,
            })
            .collect();
        RectCase { kind: k, chans }
    });
    ctx.prop("rectifiers/random", ctx.pick(50_000, 500_000), strat, check_rect);

    // envelope
    ctx.prop("envelope/histories", ctx.pick(20_000, 120_000), env_strategy(), check_env);

    // F8: the excluded region has exactly one deterministic probe
    match f8_probe() {
        Ok(()) => {}
        Err(m) => {
            if ctx.known_open("F8") {
                ctx.known_finding("F8", &format!("envelope over i32 frames overflows when the gain rounds to 1.0 and the previous envelope is within 2^7 LSB of full scale: {}", m));
            } else {
                ctx.enumerate("envelope/f8-probe", true, std::iter::once(0u8), |_: &u8, _st: &mut Stats| f8_probe());
            }
        }
    }
}

pub const ALL_KINDS: [Kind; 14] = [
    Kind::Int { bits: 8, signed: true },
    Kind::Int { bits: 16, signed: true },
    Kind::Int { bits: 24, signed: true },
    Kind::Int { bits: 32, signed: true },
    Kind::Int { bits: 48, signed: true },
    Kind::Int { bits: 64, signed: true },
    Kind::Int { bits: 8, signed: false },
    Kind::Int { bits: 16, signed: false },
    Kind::Int { bits: 24, signed: false },
    Kind::Int { bits: 32, signed: false },
    Kind::Int { bits: 48, signed: false },
    Kind::Int { bits: 64, signed: false },
    Kind::F32,
    Kind::F64,
];

#[allow(dead_code)]
fn _unused(_: U24) -> bool {
    let _ = <f32 as Sample>::EQUILIBRIUM;
    true
}
