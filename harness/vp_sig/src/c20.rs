//! C20 — window shape and chunk schedule.

use dasp_frame::Frame;
use dasp_sample::Sample;
use dasp_signal::window::{Window, Windower};
use dasp_window::{Hann, Rectangle, Window as WindowFn};
use proptest::prelude::*;
use serde::{Deserialize, Serialize};
use vp_core::{ensure, CheckResult, Ctx, Stats};

#[derive(Clone, Debug, Serialize, Deserialize)]
pub struct PhaseCase {
    /// f64 bit pattern of the phase in [0, 1]
    pub phase: u64,
}

/// independent reference: 0.5 * (1 - cos(2 pi p)) == sin^2(pi p)
fn hann_ref(p: f64) -> f64 {
    let s = (std::f64::consts::PI * p).sin();
    s * s
}

pub fn check_phase(c: &PhaseCase, st: &mut Stats) -> CheckResult {
    let p = f64::from_bits(c.phase);
    ensure!(p >= 0.0 && p <= 1.0, "bad case: phase outside [0, 1]");
    st.nt(p != 0.0 && p != 0.5 && p != 1.0);
    let h: f64 = <Hann as WindowFn<f64>>::window(p);
    let r = hann_ref(p);
    ensure!((h - r).abs() <= 1e-12, "hann({}) = {}, 0.5*(1-cos(2 pi p)) = {}", p, h, r);
    ensure!(h >= 0.0 && h <= 1.0, "hann({}) = {} outside [0, 1]", p, h);
    let hm: f64 = <Hann as WindowFn<f64>>::window(1.0 - p);
    ensure!((h - hm).abs() <= 1e-12, "hann is not symmetric about 0.5: hann({}) = {}, hann({}) = {}", p, h, 1.0 - p, hm);
    let rect: f64 = <Rectangle as WindowFn<f64>>::window(p);
    ensure!(rect == 1.0, "rectangle({}) = {}", p, rect);
    // f32 phase type
    let pf = p as f32;
    let hf: f32 = <Hann as WindowFn<f32>>::window(pf);
    let rf = hann_ref(pf as f64);
    ensure!((hf as f64 - rf).abs() <= 2e-7, "hann::<f32>({}) = {}, reference {}", pf, hf, rf);
    ensure!(hf >= 0.0 && hf <= 1.0, "hann::<f32>({}) = {} outside [0, 1]", pf, hf);
    let rectf: f32 = <Rectangle as WindowFn<f32>>::window(pf);
    ensure!(rectf == 1.0, "rectangle::<f32>({}) = {}", pf, rectf);
    if p == 0.0 || p == 1.0 {
        ensure!(h.abs() <= 1e-12 && hf.abs() <= 2e-7, "hann at the ends is {} / {}", h, hf);
    }
    if p == 0.5 {
        ensure!((h - 1.0).abs() <= 1e-12 && (hf - 1.0).abs() <= 2e-7, "hann(0.5) = {} / {}", h, hf);
    }
    Ok(())
}

#[derive(Clone, Debug, Serialize, Deserialize)]
pub struct WindowCase {
    pub n: usize,
    pub hann: bool,
}

pub fn check_window(c: &WindowCase, st: &mut Stats) -> CheckResult {
    ensure!(c.n >= 2, "bad case: n < 2");
    if c.n > 1 << 20 {
        // very long windows (beyond u32): only the first frames are looked at; the phase step is 1/(n-1)
        st.nt(true);
        st.class("window longer than 2^32 frames");
        let first: Vec<f64> = if c.hann { Window::<f64, Hann>::new(c.n).take(6).collect() } else { Window::<f64, Rectangle>::new(c.n).take(6).collect() };
        for (i, v) in first.iter().enumerate() {
            let p = i as f64 / (c.n as f64 - 1.0);
            let e = if c.hann { hann_ref(p) } else { 1.0 };
            ensure!((v - e).abs() <= 1e-9, "window({}) value {} = {}, W({}/{}) = {}", c.n, i, v, i, c.n - 1, e);
        }
        return Ok(());
    }
    st.nt(c.n >= 3 && c.hann);
    let tol = 1e-9 * c.n as f64;
    let vals: Vec<f64> = if c.hann { Window::<f64, Hann>::new(c.n).take(c.n).collect() } else { Window::<f64, Rectangle>::new(c.n).take(c.n).collect() };
    ensure!(vals.len() == c.n, "window of {} frames yielded {}", c.n, vals.len());
    for (i, v) in vals.iter().enumerate() {
        let p = i as f64 / (c.n - 1) as f64;
        let e = if c.hann { hann_ref(p) } else { 1.0 };
        ensure!((v - e).abs() <= tol, "window({}) value {} = {}, W({}/{}) = {}", c.n, i, v, i, c.n - 1, e);
    }
    // positional use of the (endless) window iterator agrees with next()
    if c.hann {
        vp_core::iterlaws::iter_laws("Window<f64, Hann>", || Window::<f64, Hann>::new(c.n), &vals, false)?;
    } else {
        vp_core::iterlaws::iter_laws("Window<f64, Rectangle>", || Window::<f64, Rectangle>::new(c.n), &vals, false)?;
    }
    // a clone taken after j frames continues at phase j/(n-1), and so does the original
    for j in [0usize, 1, c.n / 2, c.n - 1] {
        macro_rules! go {
            ($W:ty) => {{
                let mut w = Window::<f64, $W>::new(c.n);
                for _ in 0..j {
                    let _ = w.next();
                }
                let cl = w.clone();
                let (a, b): (Vec<f64>, Vec<f64>) = (cl.take(c.n - j).collect(), w.take(c.n - j).collect());
                ensure!(a == vals[j..] && b == vals[j..], "window({}): a clone taken after {} frames yields {:?}, the original {:?}, expected {:?}", c.n, j, a, b, &vals[j..]);
            }};
        }
        if c.hann {
            go!(Hann)
        } else {
            go!(Rectangle)
        }
    }
    // multi-channel / f32 frames carry the same value on every channel
    let v2: Vec<[f32; 2]> = if c.hann { Window::<[f32; 2], Hann>::new(c.n).take(c.n).collect() } else { Window::<[f32; 2], Rectangle>::new(c.n).take(c.n).collect() };
    for (i, f) in v2.iter().enumerate() {
        ensure!(f[0] == f[1] && (f[0] as f64 - vals[i]).abs() <= 2e-7, "window({}) [f32;2] frame {} = {:?}, f64 value {}", c.n, i, f, vals[i]);
    }
    Ok(())
}

#[derive(Clone, Copy, Debug, PartialEq, Eq, Serialize, Deserialize)]
pub enum FT {
    F64,
    F32x2,
    I16,
    U8x2,
}

#[derive(Clone, Debug, Serialize, Deserialize)]
pub struct ChunkCase {
    pub l: usize,
    pub bin: usize,
    pub hop: usize,
    pub hann: bool,
    pub ft: FT,
}

trait WF: Frame + std::fmt::Debug {
    fn at(i: usize) -> Self;
    /// per channel (value as f64, tolerance)
    fn close(self, frame: Self, w: f64, rect: bool) -> Result<(), String>;
}
impl WF for f64 {
    fn at(i: usize) -> Self {
        0.1 + ((i * 37) % 101) as f64 / 128.0 - 0.4
    }
    fn close(self, frame: Self, w: f64, rect: bool) -> Result<(), String> {
        let e = frame * w;
        if (self - e).abs() <= 1e-12 * e.abs().max(1e-3) {
            Ok(())
        } else {
            Err(format!("{} vs frame {} x window {} = {}", self, frame, w, e))
        }
    }
}
impl WF for [f32; 2] {
    fn at(i: usize) -> Self {
        [((i * 37) % 101) as f32 / 128.0 - 0.4, 0.5 - ((i * 11) % 53) as f32 / 64.0]
    }
    fn close(self, frame: Self, w: f64, rect: bool) -> Result<(), String> {
        for c in 0..2 {
            let e = frame[c] as f64 * w;
            if (self[c] as f64 - e).abs() > 1e-6 * e.abs().max(1e-3) {
                return Err(format!("channel {}: {} vs frame {} x window {} = {}", c, self[c], frame[c], w, e));
            }
        }
        Ok(())
    }
}
/// integer frames: the window value is produced in the format's Float (f32 here) and applied with mul_amp, i.e. the signed
/// amplitude is multiplied in f32 and truncated toward zero. The Rectangle window's value is exactly 1, which leaves the sample unchanged;
/// otherwise the result lies between the truncated products for w -+ 3e-7 (f32 window value and f32 product rounding).
fn int_close(got: i64, amp: i64, w: f64, rect: bool) -> Result<(), String> {
    if rect {
        return if got == amp { Ok(()) } else { Err(format!("amplitude {} vs frame amplitude {} x window value 1 (must be unchanged)", got, amp)) };
    }
    let (a, b) = (amp as f64 * (w - 3e-7).max(0.0), amp as f64 * (w + 3e-7).min(1.0));
    let (lo, hi) = (a.min(b).trunc() as i64, a.max(b).trunc() as i64);
    if got >= lo && got <= hi {
        Ok(())
    } else {
        Err(format!("amplitude {} vs frame amplitude {} x window {} truncated = [{}, {}]", got, amp, w, lo, hi))
    }
}
impl WF for i16 {
    fn at(i: usize) -> Self {
        (((i * 7919) % 2003) as i32 - 1001) as i16 * 30 + (i % 7) as i16
    }
    fn close(self, frame: Self, w: f64, rect: bool) -> Result<(), String> {
        int_close(self as i64, frame as i64, w, rect)
    }
}
impl WF for [u8; 2] {
    fn at(i: usize) -> Self {
        [((i * 37) % 256) as u8, (255 - (i * 101) % 256) as u8]
    }
    fn close(self, frame: Self, w: f64, rect: bool) -> Result<(), String> {
        for c in 0..2 {
            int_close(self[c] as i64 - 128, frame[c] as i64 - 128, w, rect).map_err(|e| format!("channel {}: {}", c, e))?;
        }
        Ok(())
    }
}

fn chunks_typed<F: WF, W: WindowFn<f64, Output = f64> + Clone>(c: &ChunkCase, hann: bool) -> CheckResult {
    let frames: Vec<F> = (0..c.l).map(F::at).collect();
    let mut it: Windower<F, W> = Windower::new(&frames[..], c.bin, c.hop);
    let expected = if c.l >= c.bin { (c.l - c.bin) / c.hop + 1 } else { 0 };
    let mut k = 0usize;
    loop {
        let remaining = expected.saturating_sub(k);
        let (lo, hi) = it.size_hint();
        ensure!(lo <= remaining, "before chunk {}: size_hint lower bound {} exceeds the {} chunks that remain (L = {}, bin = {}, hop = {})", k, lo, remaining, c.l, c.bin, c.hop);
        if let Some(h) = hi {
            ensure!(h >= remaining, "before chunk {}: size_hint upper bound {} is below the {} chunks that remain (L = {}, bin = {}, hop = {})", k, h, remaining, c.l, c.bin, c.hop);
        }
        match it.next() {
            None => break,
            Some(chunk) => {
                ensure!(k < expected, "windower yielded chunk {} but only {} are expected (L = {}, bin = {}, hop = {})", k, expected, c.l, c.bin, c.hop);
                let got: Vec<F> = chunk.clone().take(c.bin).collect();
                ensure!(got.len() == c.bin, "chunk {} has {} frames, bin = {}", k, got.len(), c.bin);
                if k < 2 {
                    vp_core::iterlaws::iter_laws("Windowed chunk", || chunk.clone(), &got, false)?;
                    // a clone of a chunk taken after j frames continues where the chunk stands
                    for j in [1usize, c.bin / 2, c.bin - 1] {
                        let mut ch = chunk.clone();
                        for _ in 0..j {
                            let _ = ch.next();
                        }
                        let rest: Vec<F> = ch.clone().take(c.bin - j).collect();
                        ensure!(rest == got[j..], "chunk {}: a clone taken after {} frames yields {:?}, expected the rest of the chunk {:?}", k, j, rest, &got[j..]);
                    }
                }
                for i in 0..c.bin {
                    let p = i as f64 / (c.bin - 1) as f64;
                    let w = if hann { hann_ref(p) } else { 1.0 };
                    // the last window position may have wrapped to phase 0: same value for both windows
                    got[i].close(frames[k.checked_mul(c.hop).and_then(|x| x.checked_add(i)).ok_or("harness: index overflow")?], w, !hann).map_err(|e| format!("chunk {} frame {}: {}", k, i, e))?;
                }
                k += 1;
            }
        }
        ensure!(k <= expected + 2, "windower does not stop");
    }
    ensure!(k == expected, "windower yielded {} chunks, expected floor((L-b)/h)+1 = {} (L = {}, bin = {}, hop = {})", k, expected, c.l, c.bin, c.hop);
    for _ in 0..3 {
        ensure!(it.next().is_none(), "windower yielded a chunk after returning None");
    }
    // positional use of the iterator: nth / skip / step_by must see the same chunk schedule
    let first_frame_ok = |chunk: Option<dasp_signal::window::Windowed<dasp_signal::FromIterator<core::iter::Cloned<core::slice::Iter<F>>>, W>>, j: usize, how: &str| -> CheckResult {
        match chunk {
            Some(ch) => {
                ensure!(j < expected, "{} yields a chunk at position {} but only {} exist (L = {}, bin = {}, hop = {})", how, j, expected, c.l, c.bin, c.hop);
                let got: Vec<F> = ch.take(c.bin).collect();
                for i in 0..c.bin {
                    let p = i as f64 / (c.bin - 1) as f64;
                    let w = if hann { hann_ref(p) } else { 1.0 };
                    got[i].close(frames[j * c.hop + i], w, !hann).map_err(|e| format!("{} chunk {} frame {}: {}", how, j, i, e))?;
                }
                Ok(())
            }
            None => {
                ensure!(j >= expected, "{} yields no chunk at position {} although {} exist (L = {}, bin = {}, hop = {})", how, j, expected, c.l, c.bin, c.hop);
                Ok(())
            }
        }
    };
    for j in [0usize, 1, 2, expected.saturating_sub(1), expected, expected + 1] {
        let mut w: Windower<F, W> = Windower::new(&frames[..], c.bin, c.hop);
        first_frame_ok(w.nth(j), j, "nth")?;
        let w: Windower<F, W> = Windower::new(&frames[..], c.bin, c.hop);
        first_frame_ok(w.skip(j).next(), j, "skip(k).next()")?;
    }
    // bin, hop and frames are public fields: a windower built with other values and then assigned the case's values
    // behaves like one constructed with them
    {
        let mut w: Windower<F, W> = Windower::new(&frames[..c.l.min(1)], c.bin + 1, c.hop.saturating_add(1));
        w.bin = c.bin;
        w.hop = c.hop;
        w.frames = &frames[..];
        first_frame_ok(w.clone().next(), 0, "after assigning the public fields, next()")?;
        let n = w.take(expected + 3).count();
        ensure!(n == expected, "a windower whose public fields were assigned (L = {}, bin = {}, hop = {}) yields {} chunks, expected {}", c.l, c.bin, c.hop, n, expected);
    }
    // a clone taken after j chunks continues with the same schedule as the original
    for j in [0usize, 1, expected / 2, expected] {
        let mut w: Windower<F, W> = Windower::new(&frames[..], c.bin, c.hop);
        for _ in 0..j.min(expected) {
            let _ = w.next();
        }
        let done = j.min(expected);
        let mut cl = w.clone();
        first_frame_ok(cl.next(), done, "clone().next()")?;
        let rest = cl.take(expected + 3).count() + (done < expected) as usize;
        ensure!(rest == expected - done, "a clone taken after {} chunks yields {} more chunks, the original has {} left (L = {}, bin = {}, hop = {})", done, rest, expected - done, c.l, c.bin, c.hop);
        let left = w.take(expected + 3).count();
        ensure!(left == expected - done, "after being cloned the original yields {} more chunks, expected {}", left, expected - done);
    }
    let w: Windower<F, W> = Windower::new(&frames[..], c.bin, c.hop);
    let stepped = w.step_by(2).take(expected + 3).count();
    ensure!(stepped == (expected + 1) / 2, "step_by(2) yields {} chunks, expected {} of {}", stepped, (expected + 1) / 2, expected);
    // consuming the windower by value: count() and last() called on the windower itself (not through an adaptor) see the same schedule
    let w: Windower<F, W> = Windower::new(&frames[..], c.bin, c.hop);
    let n = w.count();
    ensure!(n == expected, "count() = {}, expected {} chunks (L = {}, bin = {}, hop = {})", n, expected, c.l, c.bin, c.hop);
    let w: Windower<F, W> = Windower::new(&frames[..], c.bin, c.hop);
    let last = w.last();
    if expected == 0 {
        ensure!(last.is_none(), "last() yields a chunk although none exist (L = {}, bin = {}, hop = {})", c.l, c.bin, c.hop);
    } else {
        ensure!(last.is_some(), "last() yields no chunk although {} exist", expected);
        first_frame_ok(last, expected - 1, "last()")?;
    }
    let mut w: Windower<F, W> = Windower::new(&frames[..], c.bin, c.hop);
    if expected > 1 {
        let _ = w.next();
        first_frame_ok(w.last(), expected - 1, "next() then last()")?;
    }
    Ok(())
}

pub fn check_chunks(c: &ChunkCase, st: &mut Stats) -> CheckResult {
    ensure!(c.bin >= 2 && c.hop >= 1, "bad case: bin < 2 or hop < 1");
    st.nt((c.l >= c.bin && (c.l - c.bin) % c.hop != 0) || c.l == c.bin || c.hop >= c.bin || (c.hann && c.bin >= 3));
    st.class_if(c.l < c.bin, "L < bin");
    st.class_if(c.l == c.bin, "L == bin");
    st.class_if(c.hop >= c.bin, "hop >= bin");
    st.class_if(c.hop > usize::MAX / 2, "hop near usize::MAX");
    st.class_if(c.l >= c.bin && (c.l - c.bin) % c.hop != 0, "(L - bin) not a multiple of hop");
    match (c.ft, c.hann) {
        (FT::F64, true) => chunks_typed::<f64, Hann>(c, true),
        (FT::F64, false) => chunks_typed::<f64, Rectangle>(c, false),
        (FT::F32x2, true) => chunks_typed::<[f32; 2], Hann>(c, true),
        (FT::F32x2, false) => chunks_typed::<[f32; 2], Rectangle>(c, false),
        (FT::I16, true) => chunks_typed::<i16, Hann>(c, true),
        (FT::I16, false) => chunks_typed::<i16, Rectangle>(c, false),
        (FT::U8x2, true) => chunks_typed::<[u8; 2], Hann>(c, true),
        (FT::U8x2, false) => chunks_typed::<[u8; 2], Rectangle>(c, false),
    }
}

pub fn run(ctx: &mut Ctx) {
    ctx.set_rule(
        "window function: phases k/2^m for every m <= 10 exhaustively plus random phases in [0,1], f64 and f32 phase types; Window::new(n) for n in 2..=64 and {100, 1000, 4096, 2^32+3, 2^33+1, 2^40}; \
         windower: every (L, bin, hop) with L in 0..=40, bin in 2..=12, hop in 1..=14 x {Hann, Rectangle} x {f64, [f32;2], i16, [u8;2]} plus random larger triples; non-trivial: phase not 0/0.5/1; \
         Hann window with n >= 3; (L - bin) not a multiple of hop, L == bin, hop >= bin, or Hann with bin >= 3",
    );
    ctx.assume("reference for the Hann shape is sin^2(pi p) (an identity of 0.5*(1-cos 2 pi p) evaluated through a different libm function); tolerances 1e-12 (f64), 2e-7 (f32), 1e-9*n for the n-point window, integer frames: unchanged under a window value of exactly 1 (Rectangle), otherwise within the truncated products of the signed amplitude with w -+ 3e-7");
    ctx.assume("size_hint() is taken before EVERY next(): lower <= remaining <= upper (the Iterator contract; nothing stronger is demanded)");
    for c in ["L < bin", "L == bin", "hop >= bin", "(L - bin) not a multiple of hop", "hop near usize::MAX", "window longer than 2^32 frames"] {
        ctx.require_class(c);
    }
    let mut cases = Vec::new();
    for m in 0..=10u32 {
        for k in 0..=(1u64 << m) {
            cases.push(PhaseCase { phase: (k as f64 / (1u64 << m) as f64).to_bits() });
        }
    }
    ctx.enumerate("hann/dyadic-phases", true, cases.into_iter(), check_phase);
    ctx.prop("hann/random-phases", ctx.pick(100_000, 1_000_000), (0.0f64..=1.0).prop_map(|p| PhaseCase { phase: p.to_bits() }), check_phase);
    let mut cases = Vec::new();
    for n in (2..=64).chain([100, 1000, 4096, (1usize << 32) + 3, (1usize << 33) + 1, 1usize << 40]) {
        cases.push(WindowCase { n, hann: true });
        cases.push(WindowCase { n, hann: false });
    }
    ctx.enumerate("window-iterator", true, cases.into_iter(), check_window);
    let mut cases = Vec::new();
    for l in 0..=40 {
        for bin in 2..=12 {
            for hop in 1..=14 {
                for hann in [true, false] {
                    for ft in [FT::F64, FT::F32x2, FT::I16, FT::U8x2] {
                        cases.push(ChunkCase { l, bin, hop, hann, ft });
                    }
                }
            }
        }
    }
    // hops at the top of the usize range (every h >= 1 is in the domain)
    for l in [0usize, 1, 2, 3, 8, 9] {
        for bin in [2usize, 3, 8] {
            for hop in [usize::MAX, usize::MAX - 1, usize::MAX - bin, usize::MAX - bin + 1, usize::MAX / 2 + 1, 1usize << 40] {
                for ft in [FT::F64, FT::I16] {
                    cases.push(ChunkCase { l, bin, hop, hann: l % 2 == 0, ft });
                }
            }
        }
    }
    let n = cases.len() as u64;
    ctx.par_enumerate("windower/all-small-triples", true, n, move |i| cases[i as usize].clone(), check_chunks);
    let strat = (0usize..600, 2usize..80, 1usize..100, any::<bool>(), 0usize..4).prop_map(|(l, bin, hop, hann, f)| ChunkCase { l, bin, hop, hann, ft: [FT::F64, FT::F32x2, FT::I16, FT::U8x2][f] });
    ctx.prop("windower/random-triples", ctx.pick(20_000, 200_000), strat, check_chunks);
    let _ = <f64 as Sample>::EQUILIBRIUM;
}
