//! C11 core — windowed RMS == true RMS of the last N frames.  This file is compiled into two
//! crates: vp_sig (std build of the dasp crates) and vp_nostd (dasp_sample / dasp_frame /
//! dasp_ring_buffer / dasp_rms with default-features = false, i.e. the bit-trick square root).
//! It therefore uses nothing but those four crates and vp_core.

use dasp_frame::Frame;
use dasp_ring_buffer::Fixed;
use dasp_rms::Rms;
use dasp_sample::{FloatSample, Sample, I24, U24, U48};
use proptest::prelude::*;
use serde::{Deserialize, Serialize};
use vp_core::fmt::{Fmt, Kind, Val};
use vp_core::{ensure, CheckResult, Ctx, Stats};

#[derive(Clone, Debug, Serialize, Deserialize)]
pub enum Op {
    /// one value per channel, nominally in [-1, 1] (mapped onto the format's amplitude range)
    Push(Vec<f64>),
    /// next_squared instead of next
    PushSquared(Vec<f64>),
    Reset,
    /// carry on with a clone of the detector (the original is dropped)
    CloneSwap,
}

#[derive(Clone, Debug, Serialize, Deserialize)]
pub struct Case {
    pub kind: Kind,
    pub channels: usize,
    pub n: usize,
    pub ops: Vec<Op>,
    /// all values are k/64: squares and window sums are exactly representable
    pub exact: bool,
}

pub const KINDS: [Kind; 10] = [
    Kind::F32,
    Kind::F64,
    Kind::Int { bits: 16, signed: true },
    Kind::Int { bits: 32, signed: true },
    Kind::Int { bits: 8, signed: false },
    Kind::Int { bits: 24, signed: true },
    Kind::Int { bits: 48, signed: false },
    Kind::Int { bits: 64, signed: false },
    Kind::Int { bits: 64, signed: true },
    Kind::Int { bits: 24, signed: false },
];

/// is this build using the approximate (no_std) square root?
pub fn sqrt_is_approximate() -> bool {
    let x = 2.0f32;
    FloatSample::sample_sqrt(x).to_bits() != x.sqrt().to_bits()
}

/// map a nominal value onto the format; returns the sample and its exact normalised amplitude
fn to_sample<S: Fmt>(v: f64) -> (S, f64) {
    match S::KIND {
        Kind::Int { bits, .. } => {
            let half = S::KIND.half() as f64;
            let mut a = (v * half).trunc();
            if a > half - 1.0 {
                a = half - 1.0;
            }
            if a < -half {
                a = -half;
            }
            let a = a as i128;
            let _ = bits;
            (S::from_val(Val::I(a + S::KIND.offset())), a as f64 / half)
        }
        Kind::F32 => {
            let x = v as f32;
            (S::from_val(Val::F32(x)), x as f64)
        }
        Kind::F64 => (S::from_val(Val::F64(v)), v),
    }
}

fn fl_to_f64<T: Fmt>(x: T) -> f64 {
    match x.to_val() {
        Val::F32(v) => v as f64,
        Val::F64(v) => v,
        Val::I(v) => v as f64,
    }
}

fn run_typed<S, const C: usize>(c: &Case, st: &mut Stats) -> CheckResult
where
    S: Fmt,
    S::Float: Fmt + FloatSample,
{
    let approx = sqrt_is_approximate();
    let f32_companion = <S::Float as Fmt>::KIND == Kind::F32;
    // unit round-off of the companion float
    let u: f64 = if f32_companion { 2f64.powi(-24) } else { 2f64.powi(-53) };
    let n = c.n;
    ensure!(n >= 1 && c.channels == C, "bad case");
    let mk = || Rms::<[S; C], Vec<[S::Float; C]>>::new(Fixed::from(vec![<[S::Float; C] as Frame>::EQUILIBRIUM; n]));
    let mut rms = mk();
    // a fresh detector that is fed only what came after the last reset
    let mut fresh = mk();
    ensure!(rms.window_frames() == n, "window_frames() = {}", rms.window_frames());
    // reference window: exact amplitudes of the last n pushes since the last reset (zeros before)
    let mut hist: Vec<[f64; C]> = Vec::new();
    let mut xmax = [0.0f64; C];
    let mut t: u64 = 0;
    let mut had_reset_after_input = false;
    let mut turned_over = false;
    let mut last_out: Option<[S::Float; C]> = None;
    let mut cloned = false;
    for (k, op) in c.ops.iter().enumerate() {
        match op {
            Op::Reset => {
                if t > 0 && xmax.iter().any(|x| *x > 0.0) {
                    had_reset_after_input = true;
                }
                rms.reset();
                fresh = mk();
                hist.clear();
                xmax = [0.0; C];
                t = 0;
                let cur = rms.current();
                for ch in 0..C {
                    let v = fl_to_f64(cur[ch]);
                    let zero_ok = if approx { v.abs() <= if f32_companion { 2f64.powi(-62) } else { 2f64.powi(-500) } } else { v == 0.0 };
                    ensure!(zero_ok, "op #{}: after reset() current() channel {} = {} (not the all-zero state)", k, ch, v);
                }
                last_out = None;
            }
            Op::CloneSwap => {
                let cl = rms.clone();
                let (a, b) = (rms.current(), cl.current());
                for ch in 0..C {
                    ensure!(fl_to_f64(a[ch]).to_bits() == fl_to_f64(b[ch]).to_bits(), "op #{}: a clone reports current() = {} in channel {}, the original {}", k, fl_to_f64(b[ch]), ch, fl_to_f64(a[ch]));
                }
                rms = cl;
                cloned = true;
            }
            Op::Push(vals) | Op::PushSquared(vals) => {
                ensure!(vals.len() == C, "bad case: wrong channel count");
                let squared = matches!(op, Op::PushSquared(_));
                let mut frame = [S::EQUILIBRIUM; C];
                let mut amps = [0.0f64; C];
                for ch in 0..C {
                    ensure!(vals[ch].is_finite(), "bad case: non-finite input");
                    let (s, a) = to_sample::<S>(vals[ch]);
                    frame[ch] = s;
                    amps[ch] = a;
                    xmax[ch] = xmax[ch].max(a.abs());
                }
                hist.push(amps);
                t += 1;
                if hist.len() > n {
                    turned_over = true;
                }
                let (out, out_fresh) = if squared { (rms.next_squared(frame), fresh.next_squared(frame)) } else { (rms.next(frame), fresh.next(frame)) };
                for ch in 0..C {
                    let got = fl_to_f64(out[ch]);
                    // after a reset the detector must behave exactly like a fresh one
                    let gf = fl_to_f64(out_fresh[ch]);
                    ensure!(got.to_bits() == gf.to_bits(), "op #{} channel {}: detector after reset yields {}, a fresh detector on the same input yields {}", k, ch, got, gf);
                    ensure!(!got.is_nan() && got >= 0.0, "op #{} channel {}: output {} is negative or NaN", k, ch, got);
                    // reference mean square over the last n pushes (f64 from exact amplitudes)
                    let lo_i = hist.len().saturating_sub(n);
                    let sumsq: f64 = hist[lo_i..].iter().map(|a| a[ch] * a[ch]).sum();
                    let mean = sumsq / n as f64;
                    let x2 = xmax[ch] * xmax[ch];
                    if c.exact && !approx {
                        // grid values: exact
                        let mean_t = if f32_companion { ((sumsq as f32) / (n as f32)) as f64 } else { sumsq / n as f64 };
                        let exp = if squared { mean_t } else if f32_companion { (mean_t as f32).sqrt() as f64 } else { mean_t.sqrt() };
                        ensure!(got == exp, "op #{} channel {}: {} = {}, exact value {} (window {}, {} pushes since reset)", k, ch, if squared { "next_squared" } else { "next" }, got, exp, n, t);
                    } else {
                        // rigorous bound: <= 2 roundings per step on a sum <= (N+1) X^2, plus conversion, squaring, division
                        let bound = u * x2 * (2.2 * t as f64 * (n as f64 + 1.0) / n as f64 + 5.0) + (n as f64 + 2.0) * 2f64.powi(-53) * x2 + f64::MIN_POSITIVE;
                        if squared {
                            ensure!(
                                (got - mean).abs() <= bound,
                                "op #{} channel {}: next_squared = {}, true mean square of the last {} frames = {} (difference {}, rigorous bound {}; {} pushes since reset, peak {})",
                                k, ch, got, n, mean, (got - mean).abs(), bound, t, xmax[ch]
                            );
                        } else {
                            let (cc, aa) = if approx { (0.07, if f32_companion { 2f64.powi(-62) } else { 2f64.powi(-500) }) } else { (4.0 * u, 0.0) };
                            let lo = (mean - bound).max(0.0).sqrt() * (1.0 - cc) - aa;
                            let hi = (mean + bound).sqrt() * (1.0 + cc) + aa;
                            ensure!(
                                got >= lo && got <= hi,
                                "op #{} channel {}: next = {}, true RMS of the last {} frames = {} (allowed [{}, {}]; {} pushes since reset, peak {}, {} sqrt)",
                                k, ch, got, n, mean.sqrt(), lo, hi, t, xmax[ch], if approx { "approximate" } else { "libm" }
                            );
                        }
                    }
                }
                if squared {
                    // current() after next_squared() is the square root of what next_squared() just returned
                    let cur = rms.current();
                    for ch in 0..C {
                        let want = FloatSample::sample_sqrt(out[ch]);
                        ensure!(fl_to_f64(cur[ch]).to_bits() == fl_to_f64(want).to_bits(), "op #{} channel {}: current() = {} after next_squared() returned {} (square root {})", k, ch, fl_to_f64(cur[ch]), fl_to_f64(out[ch]), fl_to_f64(want));
                    }
                }
                if !squared {
                    let cur = rms.current();
                    for ch in 0..C {
                        ensure!(fl_to_f64(cur[ch]).to_bits() == fl_to_f64(out[ch]).to_bits(), "op #{} channel {}: current() = {} differs from the value next() just returned {}", k, ch, fl_to_f64(cur[ch]), fl_to_f64(out[ch]));
                    }
                }
                last_out = Some(out);
            }
        }
    }
    let _ = last_out;
    st.nt(turned_over || had_reset_after_input || c.kind.is_int() || C > 1);
    st.class_if(turned_over, "history longer than the window");
    st.class_if(c.ops.len() as u64 >= 10 * n as u64 && turned_over, "history >= 10 x window");
    st.class_if(had_reset_after_input, "reset after non-zero input");
    st.class_if(cloned && t > 0, "detector cloned mid-history");
    st.class_if(c.exact, "exact regime (grid values)");
    st.class_if(approx && f32_companion, "approximate sqrt, f32");
    st.class_if(approx && !f32_companion, "approximate sqrt, f64");
    st.class_if(c.kind.is_int(), "integer format");
    Ok(())
}

pub fn check(c: &Case, st: &mut Stats) -> CheckResult {
    macro_rules! chans {
        ($S:ty) => {
            match c.channels {
                1 => run_typed::<$S, 1>(c, st),
                2 => run_typed::<$S, 2>(c, st),
                5 => run_typed::<$S, 5>(c, st),
                _ => Err("bad case: channel count not instantiated".to_string()),
            }
        };
    }
    let k = c.kind;
    if k == <f32 as Fmt>::KIND {
        chans!(f32)
    } else if k == <f64 as Fmt>::KIND {
        chans!(f64)
    } else if k == <i16 as Fmt>::KIND {
        chans!(i16)
    } else if k == <i32 as Fmt>::KIND {
        chans!(i32)
    } else if k == <u8 as Fmt>::KIND {
        chans!(u8)
    } else if k == <I24 as Fmt>::KIND {
        chans!(I24)
    } else if k == <U48 as Fmt>::KIND {
        chans!(U48)
    } else if k == <u64 as Fmt>::KIND {
        chans!(u64)
    } else if k == <i64 as Fmt>::KIND {
        chans!(i64)
    } else if k == <U24 as Fmt>::KIND {
        chans!(U24)
    } else {
        Err("bad case: format not instantiated".into())
    }
}

fn value(exact: bool) -> BoxedStrategy<f64> {
    if exact {
        (-64i32..=63).prop_map(|k| k as f64 / 64.0).boxed() // +1.0 is not representable in the integer formats
    } else {
        prop_oneof![
            4 => (-1.0f64..1.0),
            1 => (-1e-3f64..1e-3),
            1 => proptest::sample::select(vec![0.0, 1.0, -1.0, 0.5, -0.999, 1e-9, 0.25]),
        ]
        .boxed()
    }
}

pub fn case_strategy(max_mult: usize) -> impl Strategy<Value = Case> {
    (0usize..KINDS.len(), proptest::sample::select(vec![1usize, 2, 5]), prop_oneof![4 => 1usize..=64, 1 => proptest::sample::select(vec![100usize, 1000])], any::<bool>(), 0usize..9).prop_flat_map(
        move |(ki, channels, n, exact, profile)| {
            let len = (n * max_mult).min(3000).max(4);
            let push = proptest::collection::vec(value(exact), channels);
            let op = prop_oneof![
                12 => push.clone().prop_map(Op::Push),
                4 => push.prop_map(Op::PushSquared),
                1 => Just(Op::Reset),
                1 => Just(Op::CloneSwap),
            ];
            proptest::collection::vec(op, 1..len).prop_map(move |mut ops| {
                // value profiles on top of the random history
                let l = ops.len();
                if profile == 5 && !exact && l >= 8 {
                    // loud, then at least a quarter of the history far quieter but non-zero (squares below the rounding
                    // unit of the running sum), then reset, then ordinary input
                    let kind = KINDS[ki];
                    let f32_companion = matches!(kind, Kind::F32) || matches!(kind, Kind::Int { bits, .. } if bits <= 24);
                    let scale = if f32_companion { 1e-4 } else { 1e-9 };
                    let floor = match kind {
                        Kind::Int { .. } => 1.0 / kind.half() as f64,
                        _ => scale * 0.01,
                    };
                    for o in ops[l / 4..l / 2].iter_mut() {
                        if let Op::Push(v) | Op::PushSquared(v) = o {
                            for x in v.iter_mut() {
                                *x = (x.abs() * scale).max(floor).copysign(*x);
                            }
                        } else {
                            *o = Op::Push(vec![floor; channels]);
                        }
                    }
                    ops[l / 2] = Op::Reset;
                }
                for (i, o) in ops.iter_mut().enumerate() {
                    if let Op::Push(v) | Op::PushSquared(v) = o {
                        match profile {
                            1 => {
                                // loud then silent (drift / clamp)
                                if i > l / 3 {
                                    for x in v.iter_mut() {
                                        *x = 0.0;
                                    }
                                }
                            }
                            2 => {
                                let first = v[0];
                                for x in v.iter_mut() {
                                    *x = first.abs().max(0.25);
                                }
                            }
                            3 => {
                                for x in v.iter_mut() {
                                    *x = if i % 2 == 0 { x.abs() } else { -x.abs() };
                                }
                            }
                            8 if !exact && !KINDS[ki].is_int() => {
                                // float formats: finite input of any magnitude, here up to 8
                                for x in v.iter_mut() {
                                    *x *= 8.0;
                                }
                            }
                            7 if !exact => {
                                // quiet throughout: the whole history sits four decades below full scale
                                for x in v.iter_mut() {
                                    *x *= 1e-4;
                                }
                            }
                            6 => {
                                // the first channel falls silent while the others carry on (channels are independent)
                                if i > l / 3 {
                                    v[0] = 0.0;
                                }
                            }
                            _ => {}
                        }
                        if exact {
                            // +1.0 is not representable in the integer formats: stay on the grid below it
                            for x in v.iter_mut() {
                                *x = x.min(63.0 / 64.0);
                            }
                        }
                    }
                }
                Case { kind: KINDS[ki], channels, n, ops, exact }
            })
        },
    )
}

/// the part of C11 that both configurations run
pub fn run_core(ctx: &mut Ctx) {
    ctx.set_rule(
        "cases are (format out of f32, f64, i16, i32, u8, I24, U48, u64, i64; 1, 2 or 5 channels; window length N in 1..=64 or {100, 1000}, plus constructed cases with N around 2^16 and above; history of push / push-squared / reset operations of up to 50 x N (max 3000) \
         operations, with value profiles random, loud-then-silent, constant, alternating sign, loud / far quieter but non-zero / reset / ordinary, first channel silent while the others carry on, quiet throughout (x 1e-4), float formats up to amplitude 8; the detector may be replaced by its clone at any point; exact flag = all values on the grid k/64); long single runs of 1e5 (thorough 1e6) pushes; \
         non-trivial: history longer than the window, or a reset after non-zero input, or an integer or multi-channel format",
    );
    ctx.assume("reference = mean of the squares of the exact amplitudes of the last N pushes since the last reset (zero-initialised window), in f64; exact regime (std): next_squared == mean and next == sqrt(mean) exactly; general regime: |next_squared - mean| <= u X^2 (2.2 T (N+1)/N + 5) with u the unit round-off of the format's Float, X the peak since reset, T the pushes since reset; next in [sqrt(max(lo,0))(1-c) - a, sqrt(hi)(1+c) + a] with (c, a) = (4u, 0) for the libm square root and (0.07, 2^-62 / 2^-500) for the no_std approximation");
    ctx.assume("after reset() the detector must agree bit for bit with a fresh detector fed the same subsequent input");
    ctx.require_class("history >= 10 x window");
    ctx.require_class("reset after non-zero input");
    ctx.require_class("detector cloned mid-history");
    ctx.require_class("integer format");
    if sqrt_is_approximate() {
        ctx.require_class("approximate sqrt, f32");
        ctx.require_class("approximate sqrt, f64");
    } else {
        ctx.require_class("exact regime (grid values)");
    }
    ctx.prop("histories", ctx.pick(3000, 40_000), case_strategy(50), check);

    // constructed histories: exactly N loud frames (0.5: exact squares), exactly N far quieter non-zero frames (their squares
    // vanish below the rounding unit of the running sum, which therefore returns to exactly 0 while the window is not
    // silent), reset, then 2N + 2 quiet frames — compared bit for bit with a fresh detector after the reset
    let mut cases = Vec::new();
    for &kind in &KINDS {
        let f32_companion = matches!(kind, Kind::F32) || matches!(kind, Kind::Int { bits, .. } if bits <= 32);
        let q = if f32_companion { 1e-4 } else { 1e-9 };
        for channels in [1usize, 2] {
            for n in [1usize, 2, 3, 5, 8, 16, 64] {
                for extra_quiet in [0usize, 1, n] {
                    let mut ops = Vec::new();
                    for _ in 0..n {
                        ops.push(Op::Push(vec![0.5; channels]));
                    }
                    for i in 0..n + extra_quiet {
                        ops.push(Op::Push(vec![if i % 2 == 0 { q } else { -q }; channels]));
                    }
                    ops.push(Op::Reset);
                    for i in 0..2 * n + 2 {
                        ops.push(if i % 3 == 2 { Op::PushSquared(vec![1.5 * q; channels]) } else { Op::Push(vec![1.5 * q; channels]) });
                    }
                    cases.push(Case { kind, channels, n, ops, exact: false });
                }
            }
        }
    }
    // window lengths around 2^16 and above (a few pushes into a very long, zero-initialised window)
    for &kind in &[Kind::F32, Kind::F64, Kind::Int { bits: 16, signed: true }] {
        for n in [65_535usize, 65_536, 65_537, 144_000] {
            let ops = vec![Op::Push(vec![0.5]), Op::Push(vec![-0.5]), Op::PushSquared(vec![0.25]), Op::Push(vec![0.5]), Op::Reset, Op::Push(vec![0.25])];
            cases.push(Case { kind, channels: 1, n, ops, exact: true });
        }
    }
    ctx.enumerate("loud-quiet-reset-quiet", true, cases.into_iter(), check);

    // long runs: loud/quiet alternation, windows 1, 2, 7, 64, 1000
    let long = ctx.pick(100_000usize, 1_000_000);
    let mut cases = Vec::new();
    for (j, n) in [1usize, 2, 7, 64, 1000].iter().enumerate() {
        for (kind, exact) in [(Kind::F32, false), (Kind::F64, false), (Kind::Int { bits: 16, signed: true }, false), (Kind::F32, true)] {
            let mut ops = Vec::with_capacity(long);
            let mut s: u64 = 0x1234_5678 + j as u64;
            for i in 0..long {
                s ^= s << 13;
                s ^= s >> 7;
                s ^= s << 17;
                let loud = (i / (3 * n + 5)) % 2 == 0;
                let v = if exact { ((s % 128) as i64 - 64) as f64 / 64.0 } else { ((s % 2_000_001) as f64 / 1_000_000.0 - 1.0) * if loud { 1.0 } else { 1e-4 } };
                ops.push(if i % 5 == 4 { Op::PushSquared(vec![v]) } else { Op::Push(vec![v]) });
            }
            cases.push(Case { kind, channels: 1, n: *n, ops, exact });
        }
    }
    let n = cases.len() as u64;
    ctx.par_enumerate("long-runs", true, n, move |i| cases[i as usize].clone(), check);
}
