//! C11 (std half): the shared core plus the `signal.rms(..)` adaptor.

pub use crate::c11_core::*;
use dasp_ring_buffer::Fixed;
use dasp_rms::Rms;
use dasp_signal::rms::SignalRms;
use dasp_signal::{self as signal, Signal};
use proptest::prelude::*;
use serde::{Deserialize, Serialize};
use vp_core::{ensure, CheckResult, Ctx, Stats};

#[derive(Clone, Debug, Serialize, Deserialize)]
pub struct AdaptorCase {
    pub n: usize,
    pub int_frames: bool,
    /// (value for channel 0, value for channel 1, use next_squared)
    pub frames: Vec<(f64, f64, bool)>,
}

/// the adaptor must feed each source frame to the detector: outputs identical (bit for bit) to
/// the direct detector on the same history, one source frame per output, exhaustion forwarded
pub fn check_adaptor(c: &AdaptorCase, st: &mut Stats) -> CheckResult {
    ensure!(c.n >= 1, "bad case");
    st.nt(c.frames.len() > c.n || c.int_frames);
    st.class("rms signal adaptor");
    if c.int_frames {
        let frames: Vec<[i16; 2]> = c.frames.iter().map(|(a, b, _)| [(a * 32767.0) as i16, (b * 32767.0) as i16]).collect();
        let mut direct = Rms::<[i16; 2], Vec<[f32; 2]>>::new(Fixed::from(vec![[0.0f32; 2]; c.n]));
        let mut ad = signal::from_iter(frames.clone()).rms(Fixed::from(vec![[0.0f32; 2]; c.n]));
        for (i, f) in frames.iter().enumerate() {
            ensure!(!ad.is_exhausted(), "adaptor exhausted before frame {}", i);
            let (g, e) = if c.frames[i].2 { (ad.next_squared(), direct.next_squared(*f)) } else { (ad.next(), direct.next(*f)) };
            ensure!(g[0].to_bits() == e[0].to_bits() && g[1].to_bits() == e[1].to_bits(), "frame {}: adaptor yields {:?}, the detector on the same history {:?}", i, g, e);
        }
        ensure!(ad.is_exhausted(), "adaptor not exhausted after its source ended");
        // pulled past the end, the source yields equilibrium frames and each of them still reaches the detector
        for j in 0..c.n + 3 {
            let (g, e) = (ad.next(), direct.next([0i16; 2]));
            ensure!(g[0].to_bits() == e[0].to_bits() && g[1].to_bits() == e[1].to_bits(), "{} frames past the end of the source: adaptor yields {:?}, the detector fed the same (equilibrium) frames {:?}", j + 1, g, e);
        }
        st.class("rms adaptor pulled past exhaustion");
    } else {
        let frames: Vec<f64> = c.frames.iter().map(|(a, _, _)| *a).collect();
        let mut direct = Rms::<f64, Vec<f64>>::new(Fixed::from(vec![0.0f64; c.n]));
        let mut ad = signal::from_iter(frames.clone()).rms(Fixed::from(vec![0.0f64; c.n]));
        for (i, f) in frames.iter().enumerate() {
            ensure!(!ad.is_exhausted(), "adaptor exhausted before frame {}", i);
            let (g, e) = if c.frames[i].2 { (ad.next_squared(), direct.next_squared(*f)) } else { (ad.next(), direct.next(*f)) };
            ensure!(g.to_bits() == e.to_bits(), "frame {}: adaptor yields {}, the detector on the same history {}", i, g, e);
        }
        ensure!(ad.is_exhausted(), "adaptor not exhausted after its source ended");
        for j in 0..c.n + 3 {
            let (g, e) = (ad.next(), direct.next(0.0));
            ensure!(g.to_bits() == e.to_bits(), "{} frames past the end of the source: adaptor yields {}, the detector fed the same (equilibrium) frames {}", j + 1, g, e);
        }
        st.class("rms adaptor pulled past exhaustion");
        let (_, det) = ad.into_parts();
        ensure!(det.current().to_bits() == direct.current().to_bits(), "into_parts() detector state differs");
    }
    Ok(())
}

pub fn run(ctx: &mut Ctx) {
    if sqrt_is_approximate() {
        ctx.inconclusive("the std part was built with the no_std square root");
        return;
    }
    run_core(ctx);
    ctx.require_class("rms signal adaptor");
    ctx.require_class("rms adaptor pulled past exhaustion");
    let strat = (1usize..40, any::<bool>(), proptest::collection::vec((-1.0f64..1.0, -1.0f64..1.0, any::<bool>()), 0..200)).prop_map(|(n, int_frames, frames)| AdaptorCase { n, int_frames, frames });
    ctx.prop("adaptor", ctx.pick(3000, 40_000), strat, check_adaptor);
}
