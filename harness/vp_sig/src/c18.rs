//! C18 — sinc interpolation: transparent on the sample grid, linear, finite, resettable.

use dasp_frame::Frame;
use dasp_interpolate::sinc::Sinc;
use dasp_interpolate::Interpolator;
use dasp_ring_buffer::Fixed;
use dasp_sample::Duplex;
use dasp_signal::interpolate::Converter;
use dasp_signal::{self as signal, Signal};
use proptest::prelude::*;
use serde::{Deserialize, Serialize};
use vp_core::{ensure, CheckResult, Ctx, Stats};

#[derive(Clone, Copy, Debug, PartialEq, Eq, Serialize, Deserialize)]
pub enum FT {
    F64,
    F32,
    F64x2,
    I16,
    I32,
    I24,
    U8,
}
pub const FTS: [FT; 7] = [FT::F64, FT::F32, FT::F64x2, FT::I16, FT::I32, FT::I24, FT::U8];

#[derive(Clone, Copy, Debug, PartialEq, Eq, Serialize, Deserialize)]
pub enum Mode {
    /// Converter at ratio exactly 1: output n == source[n - depth]
    Transparent,
    /// interp(A + B) ~ interp(A) + interp(B), interp(c A) ~ c interp(A)
    Linearity,
    /// constant input, primed buffer, depth >= 4: within 1 %
    Constant,
    /// reset() then any history == fresh interpolator, exactly
    Reset,
    /// Converter at a random ratio: finite, no panic
    RandomRatio,
}

#[derive(Clone, Debug, Serialize, Deserialize)]
pub struct Case {
    pub ft: FT,
    pub depth: usize,
    pub array_storage: bool,
    pub mode: Mode,
    /// nominal values in [-1, 1] (scaled to 0.15 full scale for integer formats)
    pub a: Vec<f64>,
    pub b: Vec<f64>,
    /// c = 2^scale_pow
    pub scale_pow: i8,
    pub xs: Vec<f64>,
    pub ratio: f64,
    /// amplitude multiplier for the float formats (finite input of any magnitude is in the domain);
    /// integer formats ignore it
    #[serde(default = "one")]
    pub gain: f64,
    /// transparent mode: ratio 1 is requested as two equal rates through the hz-pair entry points (rate / rate == 1 exactly)
    #[serde(default)]
    pub hz_rate: Option<f64>,
    /// transparent mode, integer formats: the history uses the whole range (+-1.0 = MIN / MAX) instead of 0.15 full scale;
    /// at ratio exactly 1 only the centre tap contributes, so nothing can overflow
    #[serde(default)]
    pub full_scale: bool,
}
fn one() -> f64 {
    1.0
}

pub trait SF: Frame + std::fmt::Debug
where
    Self::Sample: Duplex<f64>,
{
    const INT: bool;
    /// machine epsilon of the sample type (floats) / one LSB in normalised units (ints)
    const EPS: f64;
    fn mk(v: f64, ch_salt: u64) -> Self;
    /// per-channel amplitude in normalised units
    fn amps(self) -> Vec<f64>;
    /// one LSB in normalised units (0 for floats)
    const LSB: f64;
    /// like `mk`, but integer formats use their whole range (+-1.0 maps onto MIN / MAX)
    fn mk_full(v: f64, ch_salt: u64) -> Self {
        Self::mk(v, ch_salt)
    }
}
impl SF for f64 {
    const INT: bool = false;
    const EPS: f64 = f64::EPSILON;
    const LSB: f64 = 0.0;
    fn mk(v: f64, _: u64) -> Self {
        v
    }
    fn amps(self) -> Vec<f64> {
        vec![self]
    }
}
impl SF for f32 {
    const INT: bool = false;
    const EPS: f64 = f32::EPSILON as f64;
    const LSB: f64 = 0.0;
    fn mk(v: f64, _: u64) -> Self {
        v as f32
    }
    fn amps(self) -> Vec<f64> {
        vec![self as f64]
    }
}
impl SF for [f64; 2] {
    const INT: bool = false;
    const EPS: f64 = f64::EPSILON;
    const LSB: f64 = 0.0;
    fn mk(v: f64, _: u64) -> Self {
        [v, -0.5 * v]
    }
    fn amps(self) -> Vec<f64> {
        self.to_vec()
    }
}
impl SF for i16 {
    const INT: bool = true;
    const EPS: f64 = 1.0 / 32768.0;
    const LSB: f64 = 1.0 / 32768.0;
    fn mk(v: f64, _: u64) -> Self {
        (v * 0.15 * 32768.0) as i16
    }
    fn mk_full(v: f64, _: u64) -> Self {
        (v * 32768.0).clamp(-32768.0, 32767.0) as i16
    }
    fn amps(self) -> Vec<f64> {
        vec![self as f64 / 32768.0]
    }
}
impl SF for i32 {
    const INT: bool = true;
    const EPS: f64 = 1.0 / 2147483648.0;
    const LSB: f64 = 1.0 / 2147483648.0;
    fn mk(v: f64, _: u64) -> Self {
        (v * 0.15 * 2147483648.0) as i32
    }
    fn mk_full(v: f64, _: u64) -> Self {
        (v * 2147483648.0).clamp(-2147483648.0, 2147483647.0) as i32
    }
    fn amps(self) -> Vec<f64> {
        vec![self as f64 / 2147483648.0]
    }
}
impl SF for u8 {
    const INT: bool = true;
    const EPS: f64 = 1.0 / 128.0;
    const LSB: f64 = 1.0 / 128.0;
    fn mk(v: f64, _: u64) -> Self {
        (128.0 + (v * 0.3 * 128.0).trunc()) as u8
    }
    fn mk_full(v: f64, _: u64) -> Self {
        (128.0 + (v * 128.0).trunc().clamp(-128.0, 127.0)) as u8
    }
    fn amps(self) -> Vec<f64> {
        vec![(self as f64 - 128.0) / 128.0]
    }
}
impl SF for dasp_sample::I24 {
    const INT: bool = true;
    const EPS: f64 = 1.0 / 8388608.0;
    const LSB: f64 = 1.0 / 8388608.0;
    fn mk(v: f64, _: u64) -> Self {
        dasp_sample::I24::new((v * 0.15 * 8388608.0) as i32).unwrap()
    }
    fn mk_full(v: f64, _: u64) -> Self {
        dasp_sample::I24::new((v * 8388608.0).clamp(-8388608.0, 8388607.0) as i32).expect("I24::new rejected a value inside [MIN, MAX]")
    }
    fn amps(self) -> Vec<f64> {
        vec![self.inner() as f64 / 8388608.0]
    }
}

fn new_sinc<F: SF>(depth: usize) -> Sinc<Vec<F>>
where
    F::Sample: Duplex<f64>,
{
    Sinc::new(Fixed::from(vec![F::EQUILIBRIUM; 2 * depth]))
}

fn feed<F: SF, S: dasp_ring_buffer::SliceMut<Element = F>>(s: &mut Sinc<S>, hist: &[F])
where
    F::Sample: Duplex<f64>,
{
    for f in hist {
        s.next_source_frame(*f);
    }
}

fn run_typed<F: SF>(c: &Case, st: &mut Stats) -> CheckResult
where
    F::Sample: Duplex<f64>,
{
    let d = c.depth;
    ensure!(d >= 1, "bad case: depth 0");
    // gains above 1e30 are for f64-based formats only (an f32 would be infinite: not finite input) and only where nothing is
    // added up: the transparent mode
    let g = if F::INT { 1.0 } else if c.gain > 1e30 && (F::EPS > 1e-10 || c.mode != Mode::Transparent) { 1.0 } else { c.gain };
    ensure!(g.is_finite() && g > 0.0, "bad case: gain");
    let c = &Case { a: c.a.iter().map(|v| v * g).collect(), b: c.b.iter().map(|v| v * g).collect(), ..c.clone() };
    st.class_if(!F::INT && g > 1.0, "float input above 1.0");
    st.class_if(!F::INT && g < 1e-20, "float input below 1e-20");
    st.class_if(!F::INT && g > 1e300, "f64 input next to f64::MAX (ratio 1)");
    let full = c.full_scale && c.mode == Mode::Transparent;
    let a: Vec<F> = c.a.iter().enumerate().map(|(i, v)| if full { F::mk_full(*v, i as u64) } else { F::mk(*v, i as u64) }).collect();
    st.class_if(full && F::INT, "integer history at full scale (ratio 1)");
    let peak = a.iter().flat_map(|f| f.amps()).fold(0.0f64, |m, x| m.max(x.abs()));
    let xs: Vec<f64> = c.xs.iter().copied().filter(|x| *x >= 0.0 && *x < 1.0).collect();
    st.nt(d <= 2 || a.len() < d || xs.iter().any(|x| *x != 0.0) || c.mode == Mode::Reset);
    st.class_if(d <= 2, "depth <= 2");
    st.class_if(a.len() < d, "history shorter than depth (priming)");
    st.class_if(F::INT, "integer format");
    match c.mode {
        Mode::Transparent => {
            st.class("ratio exactly 1");
            let l = a.len();
            let outs: Vec<F> = if let Some(r) = c.hz_rate {
                ensure!(r.is_finite() && r > 0.0, "bad case: rate must be > 0");
                st.class("ratio 1 as two equal rates");
                if c.array_storage {
                    Converter::from_hz_to_hz(signal::from_iter(a.clone()), new_sinc::<F>(d), r, r).take(l + 2 * d + 2).collect()
                } else {
                    // a converter created at another ratio and set to equal rates before the first frame
                    let mut cv = signal::from_iter(a.clone()).from_hz_to_hz(new_sinc::<F>(d), 3.0 * r, r);
                    cv.set_hz_to_hz(r, r);
                    cv.take(l + 2 * d + 2).collect()
                }
            } else if c.array_storage && d == 2 {
                let sinc = Sinc::new(Fixed::from([F::EQUILIBRIUM; 4]));
                Converter::scale_playback_hz(signal::from_iter(a.clone()), sinc, 1.0).take(l + 2 * d + 2).collect()
            } else {
                Converter::scale_playback_hz(signal::from_iter(a.clone()), new_sinc::<F>(d), 1.0).take(l + 2 * d + 2).collect()
            };
            for (n, o) in outs.iter().enumerate() {
                let exp: Vec<f64> = if n >= d && n - d < l { a[n - d].amps() } else { F::EQUILIBRIUM.amps() };
                for (ch, (g, e)) in o.amps().iter().zip(&exp).enumerate() {
                    ensure!(
                        (g - e).abs() <= 1e-12 * peak,
                        "depth {}: output {} channel {} = {}, expected source frame {} delayed by depth = {} (peak {})",
                        d, n, ch, g, n as i64 - d as i64, e, peak
                    );
                }
            }
        }
        Mode::Linearity => {
            let bl = c.b.len().min(a.len());
            let b: Vec<F> = (0..a.len()).map(|i| F::mk(if i < bl { c.b[i] } else { 0.0 }, i as u64)).collect();
            // element-wise sum and power-of-two multiple, built from the nominal values so that they are exact inputs
            let cc = 2f64.powi(c.scale_pow as i32);
            let sum: Vec<F> = (0..a.len()).map(|i| F::mk(c.a[i] + if i < bl { c.b[i] } else { 0.0 }, i as u64)).collect();
            let sca: Vec<F> = c.a.iter().enumerate().map(|(i, v)| F::mk(v * cc, i as u64)).collect();
            let (mut sa, mut sb, mut ss, mut sc) = (new_sinc::<F>(d), new_sinc::<F>(d), new_sinc::<F>(d), new_sinc::<F>(d));
            feed(&mut sa, &a);
            feed(&mut sb, &b);
            feed(&mut ss, &sum);
            feed(&mut sc, &sca);
            let tot: f64 = a.iter().chain(b.iter()).rev().take(4 * d).flat_map(|f| f.amps()).map(|x| x.abs()).sum::<f64>() + peak;
            for &x in &xs {
                let (oa, ob, os, oc) = (sa.interpolate(x).amps(), sb.interpolate(x).amps(), ss.interpolate(x).amps(), sc.interpolate(x).amps());
                for ch in 0..oa.len() {
                    for v in [oa[ch], ob[ch], os[ch], oc[ch]] {
                        ensure!(v.is_finite(), "depth {} x {}: non-finite output {}", d, x, v);
                    }
                    // inputs of integer formats are themselves truncated: mk(a+b) may differ from mk(a)+mk(b) by 1 LSB per frame
                    let in_err = if F::INT { 2.0 * F::LSB * (2 * d) as f64 } else { F::EPS * tot };
                    let tol = if F::INT { (6 * d + 3) as f64 * F::LSB + in_err } else { (12 * d + 12) as f64 * F::EPS * tot.max(cc * tot) + in_err };
                    ensure!(
                        (os[ch] - (oa[ch] + ob[ch])).abs() <= tol,
                        "depth {} x {} channel {}: interp(A+B) = {} but interp(A) + interp(B) = {} (tolerance {})",
                        d, x, ch, os[ch], oa[ch] + ob[ch], tol
                    );
                    ensure!(
                        (oc[ch] - cc * oa[ch]).abs() <= tol * cc.max(1.0),
                        "depth {} x {} channel {}: interp({} A) = {} but {} interp(A) = {} (tolerance {})",
                        d, x, ch, cc, oc[ch], cc, cc * oa[ch], tol * cc.max(1.0)
                    );
                }
            }
            st.class("linearity");
        }
        Mode::Constant => {
            if d < 4 {
                return Ok(());
            }
            let cv = if c.a.is_empty() { 0.5 * g } else { c.a[0] };
            let cv = if cv.abs() < 0.05 * g { 0.5 * g } else { cv };
            let frame = F::mk(cv, 0);
            let mut s = new_sinc::<F>(d);
            feed(&mut s, &vec![frame; 2 * d + c.b.len()]);
            for &x in &xs {
                let o = s.interpolate(x).amps();
                for (ch, (g, e)) in o.iter().zip(frame.amps()).enumerate() {
                    let tol = 0.01 * e.abs() + (2 * d + 1) as f64 * F::LSB;
                    ensure!((g - e).abs() <= tol, "depth {} x {} channel {}: constant input {} reproduced as {} (more than 1 % off)", d, x, ch, e, g);
                }
            }
            st.class("constant input, primed, depth >= 4");
        }
        Mode::Reset => {
            let b: Vec<F> = c.b.iter().enumerate().map(|(i, v)| F::mk(*v, i as u64)).collect();
            let mut used = new_sinc::<F>(d);
            feed(&mut used, &a);
            if let Some(x) = xs.first() {
                let _ = used.interpolate(*x);
            }
            used.reset();
            let mut fresh = new_sinc::<F>(d);
            // immediately after reset: the initial silent state
            for &x in xs.iter().chain([0.0].iter()) {
                ensure!(used.interpolate(x) == fresh.interpolate(x), "depth {}: after reset() the interpolator is not in its initial silent state at x = {}", d, x);
                ensure!(used.interpolate(x) == F::EQUILIBRIUM, "depth {}: the initial state is not silent at x = {}", d, x);
            }
            for (i, f) in b.iter().enumerate() {
                used.next_source_frame(*f);
                fresh.next_source_frame(*f);
                for &x in &xs {
                    let (u, g) = (used.interpolate(x), fresh.interpolate(x));
                    ensure!(u == g, "depth {}: {} frames after reset(), interpolate({}) = {:?} but a fresh interpolator on the same history gives {:?}", d, i + 1, x, u, g);
                }
            }
            st.class("reset");
        }
        Mode::RandomRatio => {
            ensure!(c.ratio > 0.0 && c.ratio.is_finite(), "bad case: ratio");
            let n = ((a.len() + 2 * d) as f64 / c.ratio).min(2000.0) as usize + 2;
            let outs: Vec<F> = Converter::scale_playback_hz(signal::from_iter(a.clone()), new_sinc::<F>(d), c.ratio).take(n).collect();
            for (i, o) in outs.iter().enumerate() {
                for v in o.amps() {
                    ensure!(v.is_finite(), "depth {} ratio {}: output {} is not finite", d, c.ratio, i);
                    // |kernel| sums to at most ~2 depth; a finite bound on the output follows
                    ensure!(v.abs() <= (2 * d) as f64 * peak + 1e-9 + F::LSB * (2 * d + 1) as f64, "depth {} ratio {}: output {} = {} exceeds 2 depth x peak", d, c.ratio, i, v);
                }
            }
            st.class("converter at a random ratio");
        }
    }
    Ok(())
}

pub fn check(c: &Case, st: &mut Stats) -> CheckResult {
    match c.ft {
        FT::F64 => run_typed::<f64>(c, st),
        FT::F32 => run_typed::<f32>(c, st),
        FT::F64x2 => run_typed::<[f64; 2]>(c, st),
        FT::I16 => run_typed::<i16>(c, st),
        FT::I32 => run_typed::<i32>(c, st),
        FT::I24 => run_typed::<dasp_sample::I24>(c, st),
        FT::U8 => run_typed::<u8>(c, st),
    }
}

fn x_strategy() -> impl Strategy<Value = f64> {
    prop_oneof![
        2 => Just(0.0),
        2 => (0u32..1024).prop_map(|k| k as f64 / 1024.0),
        3 => (0.0f64..1.0),
        1 => Just(1.0 - f64::EPSILON / 2.0),
        1 => Just(0.5),
    ]
}

pub fn case_strategy(max_depth: usize) -> impl Strategy<Value = Case> {
    (0usize..FTS.len(), prop_oneof![2 => 1usize..=4, 2 => 1usize..=max_depth], 0usize..5).prop_flat_map(move |(f, depth, m)| {
        let mode = [Mode::Transparent, Mode::Linearity, Mode::Constant, Mode::Reset, Mode::RandomRatio][m];
        let val = prop_oneof![4 => (-1.0f64..1.0), 1 => (-16i32..=16).prop_map(|k| k as f64 / 16.0)];
        (
            proptest::collection::vec(val.clone(), 0..(6 * depth + 1)),
            proptest::collection::vec(val, 0..(6 * depth + 1)),
            -3i8..=2,
            proptest::collection::vec(x_strategy(), 1..5),
            prop_oneof![1 => Just(1.0), 3 => (0.1f64..4.0)],
            any::<bool>(),
            prop_oneof![3 => Just(1.0), 2 => proptest::sample::select(vec![4.0, 3.0, 1000.0, 1e-3, 65536.0, 1e6, 1e-21, 1e-24, 1e-30, 1e-12, 1.7e308]), 1 => (0.5f64..50.0)],
            prop_oneof![
                2 => Just(None),
                1 => proptest::sample::select(vec![44100.0, 48000.0, 44000.0, 22000.0, 11000.0, 88000.0, 49.0, 98.0, 103.0, 0.1, 1e-3]).prop_map(Some),
                1 => (1u32..200_000).prop_map(|r| Some(r as f64)),
                1 => (1e-3f64..1e6).prop_map(Some),
            ],
            prop_oneof![2 => Just(0usize), 1 => 0usize..=(2 * depth + 1)],
        )
            .prop_map(move |(mut a, mut b, scale_pow, xs, ratio, array_storage, gain, hz_rate, ztail)| {
                // history A may end in a run of exactly silent frames (shorter than, equal to or longer than the depth)
                let la = a.len();
                for v in a.iter_mut().skip(la.saturating_sub(ztail)) {
                    *v = 0.0;
                }
                // keep sums and scaled copies inside [-1, 1]
                if mode == Mode::Linearity {
                    for v in a.iter_mut().chain(b.iter_mut()) {
                        *v *= 0.5;
                    }
                    if scale_pow > 0 {
                        for v in a.iter_mut() {
                            *v *= 0.25;
                        }
                    }
                }
                Case { ft: FTS[f], depth, array_storage, mode, a, b, scale_pow, xs, ratio, gain, hz_rate, full_scale: ztail % 2 == 1 }
            })
    })
}

pub fn run(ctx: &mut Ctx) {
    ctx.set_rule(
        "cases are (frame format out of f64, f32, [f64;2], i16, i32; depth 1..=16 (thorough 64); zero-initialised ring storage; history of 0..6 x depth frames (priming included); fractions x from {0, k/1024, random, 0.5, 1-2^-53}; \
         float inputs scaled by a gain from 1e-30 to 1e6; one of five checks: converter at ratio exactly 1 (scale 1.0, or two equal rates through from_hz_to_hz / set_hz_to_hz), linearity (superposition and power-of-two scaling), constant input on a primed buffer with depth >= 4, reset, converter at a random ratio); integer inputs limited to 0.15 full scale except at ratio exactly 1, where they also use the whole range incl. MIN / MAX; \
         non-trivial: depth <= 2, history shorter than depth, x != 0, or reset",
    );
    ctx.assume("transparent: |out_n - source[n-depth]| <= 1e-12 peak (for integer formats that is less than one LSB, i.e. exact); linearity within (12 depth + 12) eps sum|inputs| for floats, (6 depth + 3) LSB plus input truncation for integer formats; constant input within 1 % (+ (2 depth + 1) LSB of per-term truncation for integer formats); reset compared bit for bit with a fresh interpolator");
    for c in ["depth <= 2", "history shorter than depth (priming)", "ratio exactly 1", "linearity", "constant input, primed, depth >= 4", "reset", "converter at a random ratio", "integer format", "float input above 1.0", "float input below 1e-20", "ratio 1 as two equal rates", "integer history at full scale (ratio 1)", "f64 input next to f64::MAX (ratio 1)"] {
        ctx.require_class(c);
    }
    let max_depth = ctx.pick(16usize, 64);
    ctx.prop("random", ctx.pick(60_000, 300_000), case_strategy(max_depth), check);

    // every depth x every short history length at ratio 1, and the constant check on a grid of x
    let mut cases = Vec::new();
    for &ft in &FTS {
        for depth in 1..=max_depth {
            for l in [0, 1, depth.saturating_sub(1), depth, depth + 1, 2 * depth, 3 * depth + 1] {
                let a: Vec<f64> = (0..l).map(|i| (((i * 7919) % 201) as f64 - 100.0) / 101.0).collect();
                cases.push(Case { ft, depth, array_storage: true, mode: Mode::Transparent, a, b: vec![], scale_pow: 0, xs: vec![0.0], ratio: 1.0, gain: if l % 2 == 0 { 1.0 } else { 5.0 }, hz_rate: [None, Some(44000.0), Some(49.0), Some(44100.0)][(depth + l) % 4], full_scale: l % 3 == 0 });
            }
            if depth >= 4 {
                let xs: Vec<f64> = (0..64).map(|k| k as f64 / 64.0).collect();
                cases.push(Case { ft, depth, array_storage: false, mode: Mode::Constant, a: vec![0.8], b: vec![0.0; depth], scale_pow: 0, xs: xs.clone(), ratio: 1.0, gain: 3.0, hz_rate: None, full_scale: false });
                cases.push(Case { ft, depth, array_storage: false, mode: Mode::Constant, a: vec![0.6], b: vec![], scale_pow: 0, xs: xs.clone(), ratio: 1.0, gain: 1e-22, hz_rate: None, full_scale: false });
                cases.push(Case { ft, depth, array_storage: false, mode: Mode::Constant, a: vec![-0.3], b: vec![], scale_pow: 0, xs, ratio: 1.0, gain: 1.0, hz_rate: None, full_scale: false });
            }
        }
    }
    let n = cases.len() as u64;
    ctx.par_enumerate("grid", true, n, move |i| cases[i as usize].clone(), check);
}
