#!/bin/sh
# Offline build of every harness binary (MANIFEST.setup_cmd).  Idempotent.
set -e
cd "$(dirname "$0")/harness"
export CARGO_NET_OFFLINE=true
BINS=$(sed -n 's/^members = \[\(.*\)\]/\1/p' Cargo.toml | tr -d '",' )
for b in $BINS; do
  [ "$b" = "vp_core" ] && continue
  cargo build --release -p "$b"
done
# second build configuration of the library (no debug assertions, no overflow checks): every check runs in both
for b in $BINS; do
  [ "$b" = "vp_core" ] && continue
  [ "$b" = "vp_nostd" ] && continue
  cargo build --profile nodebug -p "$b"
done
# the libFuzzer targets are only used by the thorough tier; build them in the background-friendly way:
# a failure here makes the fuzz part of a thorough run inconclusive, it never breaks setup
if [ -f ../fuzz/Cargo.toml ] && [ "${VERIF_SKIP_FUZZ_BUILD:-0}" != "1" ]; then
  (RUSTFLAGS="--cfg rustaudio_dasp_verif" cargo +nightly fuzz build --fuzz-dir ../fuzz 2>&1 | tail -3) || echo "fuzz build failed (thorough tier of fuzz-backed checks will be inconclusive)"
fi
echo setup-ok
