#!/bin/sh
# Offline build of every harness binary (MANIFEST.setup_cmd).  Idempotent.
set -e
cd "$(dirname "$0")/harness"
export CARGO_NET_OFFLINE=true
BINS=$(sed -n 's/^members = \[\(.*\)\]/\1/p' Cargo.toml | tr -d '",' )
for b in $BINS; do
  [ "$b" = "vp_core" ] && continue
  cargo build --release -p "$b"
done
cargo build --profile nodebug -p vp_sample
if [ -d ../fuzz ] && [ -f ../fuzz/Cargo.toml ]; then
  (cd ../fuzz && cargo +nightly fuzz build 2>&1 | tail -3) || echo "fuzz build failed (thorough tier of fuzz-backed checks will be inconclusive)"
fi
echo setup-ok
